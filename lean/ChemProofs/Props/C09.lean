import ChemProofs.Props.C15
import ChemProofs.Model.Brain
import ChemProofs.Spec.IsoDist
/-
C09 — shape of the coarse (BRAIN) pattern and resolution of the requested peak count.

Everything below is fully proved (no `_partial` results).  `V := maxVariants c`.

1. request resolution
   * `resolve_fixed`         n ≥ 1            ⇒ `resolveOrder (.fixed n) = min (n-1) V`      (the `n ≤ i32::MAX` hypothesis is not needed)
   * `resolve_fixed_nonpos`  n ≤ 0, 0 ≤ V     ⇒ `resolveOrder (.fixed n) = 0`
   * `resolve_guess`         1 ≤ maxIter, 1 ≤ guessCap ⇒ `resolveOrder .guess = min (min poissonN guessCap) V`
   * `resolve_guess_cap`     … ⇒ `resolveOrder .guess ≤ guessCap`
   * `resolve_percent`       1 ≤ maxIter ⇒ `.percent f` resolves like `.fixed (poissonN … f …)`; `resolve_percent_val` explicit value
   * `resolve_bounds`        0 ≤ V ⇒ `0 ≤ resolveOrder req ≤ V` for every request and every choice of constants
   * `resolve_toNat`         the `toNat` in `brainVariants` loses nothing
2. cut loop: `cutLoop_sublist`, `cutLoop_keeps`, `cutLoop_true` (= filter once a real peak was seen),
   `cutLoop_leading` (takeWhile ++ filter of dropWhile), `cutLoop_head`, `cutLoop_nonempty`, `cutLoop_total`
3. sort: `sortByMz_perm`, `sortByMz_sorted`, `sortByMz_length`, `sortByMz_mem`, `sortByMz_id_of_sorted`
   (identity on weakly increasing input: the sort is stable), `sortByMz_id` (strictly increasing), `sortByMz_total`
4. output: `rawVariants_ok` / `rawVariants_length` (`raw.length = order + 1`, proved from `espOfPs_length`,
   `updateEsp_length`, `mapRes_length`, no hypothesis), `variantsWith_eq`, `variantsWith_ok_iff`,
   `variantsWith_nonempty`, `variantsWith_shape`, `variantsWith_all`, `brainVariants_ok`, `brainVariants_shape`
5. intensities: `sum_div_self`, `rawVariants_total` (= 1 if `prob.sum ≠ 0`), `variantsWith_total`
   (= 1 − share of the omitted variants)
6. examples by `decide` / `decide +kernel` (kernel evaluation only, no extra axioms)
-/
namespace Chem

/-! ### 1. request resolution -/

section Resolve
variable (K : BrainConsts) (c : BComp)

theorem beq_guess_fixed (n : Int) : (PeakReq.fixed n == PeakReq.guess) = false := by
  rw [beq_eq_false_iff_ne]; intro h; cases h

theorem beq_guess_percent (f : Rat) : (PeakReq.percent f == PeakReq.guess) = false := by
  rw [beq_eq_false_iff_ne]; intro h; cases h

theorem beq_guess_guess : (PeakReq.guess == PeakReq.guess) = true := by
  rw [beq_iff_eq]

theorem updateOrder_nonneg (V x : Int) (hx : 0 ≤ x) : updateOrder V x = min x V := by
  unfold updateOrder
  have : (x == -1) = false := by rw [beq_eq_false_iff_ne]; omega
  simp only [this]; rfl

theorem resolveOrder_fixed_eq (n : Int) :
    resolveOrder K c (.fixed n) = min (max (max (n - 1) (-2147483648)) 0) (maxVariants c) := by
  unfold resolveOrder
  simp only [beq_guess_fixed]
  show updateOrder (maxVariants c) (numPeaks K c (.fixed n)) = _
  rw [updateOrder_nonneg]
  · rfl
  · show 0 ≤ max (max (n - 1) (-2147483648)) 0
    omega

theorem resolve_fixed (n : Int) (hn : 1 ≤ n) (_hn' : n ≤ 2147483647) :
    resolveOrder K c (.fixed n) = min (n - 1) (maxVariants c) := by
  rw [resolveOrder_fixed_eq]; omega

theorem resolve_fixed_nonpos (hV : 0 ≤ maxVariants c) (n : Int) (hn : n ≤ 0) :
    resolveOrder K c (.fixed n) = 0 := by
  rw [resolveOrder_fixed_eq]; omega

theorem reqOfInt_ne_zero (n : Int) (h : n ≠ 0) : reqOfInt n = .fixed n := by
  unfold reqOfInt
  have : (n == 0) = false := by rw [beq_eq_false_iff_ne]; exact h
  simp only [this]; rfl

theorem resolveOrder_guess_eq :
    resolveOrder K c .guess =
      updateOrder (maxVariants c) (numPeaks K c (reqOfInt (numPeaks K c .guess)) + 1) := by
  unfold resolveOrder
  simp only [beq_guess_guess]; rfl

/-- `guess`: the Poisson estimate at `guessFraction`, capped by `guessCap` and by the number of variants -/
theorem resolve_guess (hM : 1 ≤ K.maxIter) (hC : 1 ≤ K.guessCap) :
    resolveOrder K c .guess =
      min (min (poissonN (monoMassOf c K.one) K.lambdaFactor K.guessFraction K.maxIter : Int) K.guessCap)
        (maxVariants c) := by
  have hP := (poissonN_range (monoMassOf c K.one) K.lambdaFactor K.guessFraction K.maxIter hM).1
  rw [resolveOrder_guess_eq]
  have hg : numPeaks K c .guess =
      min (poissonN (monoMassOf c K.one) K.lambdaFactor K.guessFraction K.maxIter : Int) K.guessCap := rfl
  generalize poissonN (monoMassOf c K.one) K.lambdaFactor K.guessFraction K.maxIter = P at *
  rw [hg, reqOfInt_ne_zero _ (by omega)]
  show updateOrder _ (max (max (min (P : Int) K.guessCap - 1) (-2147483648)) 0 + 1) = _
  rw [updateOrder_nonneg _ _ (by omega)]
  omega

theorem resolve_guess_cap (hM : 1 ≤ K.maxIter) (hC : 1 ≤ K.guessCap) :
    resolveOrder K c .guess ≤ K.guessCap := by
  rw [resolve_guess K c hM hC]; omega

theorem resolveOrder_percent_eq (f : Rat) :
    resolveOrder K c (.percent f) =
      min (max ((poissonN (monoMassOf c K.one) K.lambdaFactor f K.maxIter : Int) - 1) 0) (maxVariants c) := by
  unfold resolveOrder
  simp only [beq_guess_percent]
  show updateOrder (maxVariants c) (numPeaks K c (.percent f)) = _
  rw [updateOrder_nonneg]
  · rfl
  · show 0 ≤ max ((poissonN (monoMassOf c K.one) K.lambdaFactor f K.maxIter : Int) - 1) 0
    omega

/-- a request by signal fraction = a fixed request for the Poisson peak-count estimate -/
theorem resolve_percent (hM : 1 ≤ K.maxIter) (_hM' : K.maxIter ≤ 2147483647) (f : Rat) :
    resolveOrder K c (.percent f) =
      resolveOrder K c (.fixed (poissonN (monoMassOf c K.one) K.lambdaFactor f K.maxIter)) := by
  have hP := (poissonN_range (monoMassOf c K.one) K.lambdaFactor f K.maxIter hM).1
  rw [resolveOrder_percent_eq, resolveOrder_fixed_eq]
  omega

/-- explicit form of the `percent` resolution -/
theorem resolve_percent_val (hM : 1 ≤ K.maxIter) (f : Rat) :
    resolveOrder K c (.percent f) =
      min ((poissonN (monoMassOf c K.one) K.lambdaFactor f K.maxIter : Int) - 1) (maxVariants c) := by
  have hP := (poissonN_range (monoMassOf c K.one) K.lambdaFactor f K.maxIter hM).1
  rw [resolveOrder_percent_eq]
  omega

/-- every request (including the `i32` extremes, and with no assumption on the constants) resolves
    to an order in `0 ..= V` -/
theorem resolve_bounds (hV : 0 ≤ maxVariants c) (req : PeakReq) :
    0 ≤ resolveOrder K c req ∧ resolveOrder K c req ≤ maxVariants c := by
  cases req with
  | fixed n => rw [resolveOrder_fixed_eq]; omega
  | percent f => rw [resolveOrder_percent_eq]; omega
  | guess =>
    rw [resolveOrder_guess_eq]
    have key : 0 ≤ numPeaks K c (reqOfInt (numPeaks K c .guess)) := by
      by_cases h0 : numPeaks K c .guess = 0
      · rw [h0]
        have : reqOfInt 0 = .guess := rfl
        rw [this, h0]
      · rw [reqOfInt_ne_zero _ h0]
        show 0 ≤ max (max (numPeaks K c .guess - 1) (-2147483648)) 0
        omega
    rw [updateOrder_nonneg _ _ (by omega)]
    omega

/-- in particular `order.toNat` in `brainVariants` loses nothing -/
theorem resolve_toNat (hV : 0 ≤ maxVariants c) (req : PeakReq) :
    ((resolveOrder K c req).toNat : Int) = resolveOrder K c req := by
  have := (resolve_bounds K c hV req).1
  omega

end Resolve

/-! ### 2. the cut loop -/

theorem cutLoop_sublist (cut : Rat) (l : List Peak) (b : Bool) : (cutLoop cut l b).Sublist l := by
  induction l generalizing b with
  | nil => exact List.Sublist.refl _
  | cons p rest ih =>
    simp only [cutLoop]
    split
    · split
      · exact (ih _).cons _
      · exact (ih _).cons_cons _
    · exact (ih _).cons_cons _

theorem cutLoop_subset (cut : Rat) (l : List Peak) (b : Bool) : ∀ p ∈ cutLoop cut l b, p ∈ l :=
  fun _ hp => (cutLoop_sublist cut l b).subset hp

theorem cutLoop_length_le (cut : Rat) (l : List Peak) (b : Bool) : (cutLoop cut l b).length ≤ l.length :=
  (cutLoop_sublist cut l b).length_le

/-- every variant with share `≥ cut` is kept -/
theorem cutLoop_keeps (cut : Rat) (l : List Peak) (b : Bool) (p : Peak) (hp : p ∈ l) (hc : cut ≤ p.int) :
    p ∈ cutLoop cut l b := by
  induction l generalizing b with
  | nil => cases hp
  | cons q rest ih =>
    simp only [cutLoop]
    rcases List.mem_cons.1 hp with rfl | hp'
    · have : ¬ p.int < cut := not_lt.2 hc
      simp only [this, if_false]
      exact List.mem_cons_self
    · split
      · split
        · exact ih _ hp'
        · exact List.mem_cons_of_mem _ (ih _ hp')
      · exact List.mem_cons_of_mem _ (ih _ hp')

/-- once a real peak has been seen the loop is the plain filter `cut ≤ int` -/
theorem cutLoop_true (cut : Rat) (l : List Peak) :
    cutLoop cut l true = l.filter (fun p => decide (cut ≤ p.int)) := by
  induction l with
  | nil => rfl
  | cons p rest ih =>
    simp only [cutLoop, List.filter_cons]
    by_cases h : p.int < cut
    · have h' : ¬ cut ≤ p.int := not_le.2 h
      simp only [h, h', if_true, decide_false, ih]
      rfl
    · have h' : cut ≤ p.int := not_lt.1 h
      simp only [h, h', if_false, decide_true, ih, if_true]

/-- from `hasReal = false`: all peaks up to (not including) the first one with `cut ≤ int` are kept,
    then exactly the later ones with `cut ≤ int` -/
theorem cutLoop_leading (cut : Rat) (l : List Peak) :
    cutLoop cut l false =
      l.takeWhile (fun p => decide (p.int < cut)) ++
        (l.dropWhile (fun p => decide (p.int < cut))).filter (fun p => decide (cut ≤ p.int)) := by
  induction l with
  | nil => rfl
  | cons p rest ih =>
    by_cases h : p.int < cut
    · simp [cutLoop, h, ih]
    · have h' : cut ≤ p.int := not_lt.1 h
      simp [cutLoop, h, h', cutLoop_true]

/-- from `hasReal = false` the first element is always kept -/
theorem cutLoop_head (cut : Rat) (p : Peak) (rest : List Peak) :
    ∃ t, cutLoop cut (p :: rest) false = p :: t := by
  simp only [cutLoop]
  split
  · exact ⟨_, rfl⟩
  · exact ⟨_, rfl⟩

theorem cutLoop_nonempty (cut : Rat) (l : List Peak) (b : Bool) (hl : l ≠ [])
    (h : (∃ p ∈ l, cut ≤ p.int) ∨ b = false) : cutLoop cut l b ≠ [] := by
  rcases h with ⟨p, hp, hc⟩ | rfl
  · exact List.ne_nil_of_mem (cutLoop_keeps cut l b p hp hc)
  · cases l with
    | nil => exact absurd rfl hl
    | cons p rest =>
      obtain ⟨t, ht⟩ := cutLoop_head cut p rest
      rw [ht]; exact List.cons_ne_nil _ _

/-- what the loop omits, from `hasReal = false`: the sub-`cut` peaks after the first real one -/
theorem cutLoop_total (cut : Rat) (l : List Peak) :
    total (cutLoop cut l false) =
      total l - total ((l.dropWhile (fun p => decide (p.int < cut))).filter (fun p => decide (p.int < cut))) := by
  have filt : ∀ m : List Peak,
      total (m.filter (fun p => decide (cut ≤ p.int))) =
        total m - total (m.filter (fun p => decide (p.int < cut))) := by
    intro m
    induction m with
    | nil => simp [total, intensities]
    | cons q m ih =>
      simp only [total, intensities] at ih ⊢
      by_cases h : q.int < cut
      · have h' : ¬ cut ≤ q.int := not_le.2 h
        simp only [List.filter_cons, h, h', decide_true, decide_false, if_true, List.map_cons,
          List.sum_cons, Bool.false_eq_true, if_false, ih]
        ring
      · have h' : cut ≤ q.int := not_lt.1 h
        simp only [List.filter_cons, h, h', decide_true, decide_false, if_true, List.map_cons,
          List.sum_cons, Bool.false_eq_true, if_false, ih]
        ring
  rw [cutLoop_leading]
  have split : total l = total (l.takeWhile (fun p => decide (p.int < cut))) +
      total (l.dropWhile (fun p => decide (p.int < cut))) := by
    conv_lhs => rw [← List.takeWhile_append_dropWhile (p := fun p => decide (p.int < cut)) (l := l)]
    simp only [total, intensities, List.map_append, List.sum_append]
  rw [split]
  simp only [total, intensities, List.map_append, List.sum_append] at filt ⊢
  rw [filt]
  ring

/-! ### 3. the sort -/

theorem insertByMz_perm (x : Peak) (l : List Peak) : (insertByMz x l).Perm (x :: l) := by
  induction l with
  | nil => exact List.Perm.refl _
  | cons y ys ih =>
    simp only [insertByMz]
    split
    · exact List.Perm.refl _
    · exact ((ih.cons y).trans (List.Perm.swap x y ys))

theorem insertByMz_sorted (x : Peak) (l : List Peak) (h : l.Pairwise (fun a b => a.mz ≤ b.mz)) :
    (insertByMz x l).Pairwise (fun a b => a.mz ≤ b.mz) := by
  induction l with
  | nil => exact List.pairwise_singleton _ _
  | cons y ys ih =>
    simp only [insertByMz]
    rcases List.pairwise_cons.1 h with ⟨hy, hys⟩
    split
    · rename_i hlt
      refine List.pairwise_cons.2 ⟨?_, h⟩
      intro a ha
      rcases List.mem_cons.1 ha with rfl | ha
      · exact le_of_lt hlt
      · exact le_trans (le_of_lt hlt) (hy a ha)
    · rename_i hnlt
      refine List.pairwise_cons.2 ⟨?_, ih hys⟩
      intro a ha
      rcases List.mem_cons.1 ((insertByMz_perm x ys).subset ha) with rfl | ha
      · exact not_lt.1 hnlt
      · exact hy a ha

/-- inserting something not smaller than everything present appends it (stability) -/
theorem insertByMz_append (x : Peak) (l : List Peak) (h : ∀ y ∈ l, y.mz ≤ x.mz) :
    insertByMz x l = l ++ [x] := by
  induction l with
  | nil => rfl
  | cons y ys ih =>
    simp only [insertByMz]
    have : ¬ x.mz < y.mz := not_lt.2 (h y List.mem_cons_self)
    simp only [this, if_false, List.cons_append]
    rw [ih (fun z hz => h z (List.mem_cons_of_mem _ hz))]

theorem sortFold_perm (l acc : List Peak) :
    (l.foldl (fun acc x => insertByMz x acc) acc).Perm (acc ++ l) := by
  induction l generalizing acc with
  | nil => simp
  | cons x xs ih =>
    simp only [List.foldl_cons]
    refine (ih _).trans ?_
    refine ((insertByMz_perm x acc).append_right xs).trans ?_
    exact (List.perm_middle (l₁ := acc) (l₂ := xs) (a := x)).symm

theorem sortFold_sorted (l acc : List Peak) (h : acc.Pairwise (fun a b => a.mz ≤ b.mz)) :
    (l.foldl (fun acc x => insertByMz x acc) acc).Pairwise (fun a b => a.mz ≤ b.mz) := by
  induction l generalizing acc with
  | nil => exact h
  | cons x xs ih =>
    simp only [List.foldl_cons]
    exact ih _ (insertByMz_sorted x acc h)

theorem sortFold_id (l acc : List Peak) (h : (acc ++ l).Pairwise (fun a b => a.mz ≤ b.mz)) :
    l.foldl (fun acc x => insertByMz x acc) acc = acc ++ l := by
  induction l generalizing acc with
  | nil => simp
  | cons x xs ih =>
    simp only [List.foldl_cons]
    have hx : ∀ y ∈ acc, y.mz ≤ x.mz := by
      intro y hy
      exact (List.pairwise_append.1 h).2.2 y hy x List.mem_cons_self
    rw [insertByMz_append x acc hx, ih]
    · simp
    · simpa using h

theorem sortByMz_perm (l : List Peak) : (sortByMz l).Perm l := by
  simpa [sortByMz] using sortFold_perm l []

theorem sortByMz_sorted (l : List Peak) : (sortByMz l).Pairwise (fun a b => a.mz ≤ b.mz) :=
  sortFold_sorted l [] List.Pairwise.nil

theorem sortByMz_length (l : List Peak) : (sortByMz l).length = l.length := (sortByMz_perm l).length_eq

theorem sortByMz_mem (l : List Peak) (p : Peak) : p ∈ sortByMz l ↔ p ∈ l := (sortByMz_perm l).mem_iff

theorem sortByMz_ne_nil (l : List Peak) (h : l ≠ []) : sortByMz l ≠ [] := by
  intro e
  have := sortByMz_length l
  rw [e] at this
  exact h (List.length_eq_zero_iff.1 this.symm)

/-- the sort is the identity on an input that is already (weakly) increasing in m/z -/
theorem sortByMz_id_of_sorted (l : List Peak) (h : l.Pairwise (fun a b => a.mz ≤ b.mz)) : sortByMz l = l := by
  simpa [sortByMz] using sortFold_id l [] (by simpa using h)

/-- … in particular on a strictly increasing one -/
theorem sortByMz_id (l : List Peak) (h : l.Pairwise (fun a b => a.mz < b.mz)) : sortByMz l = l :=
  sortByMz_id_of_sorted l (h.imp (fun hab => le_of_lt hab))

theorem insertByMz_total (x : Peak) (l : List Peak) : total (insertByMz x l) = x.int + total l := by
  induction l with
  | nil => simp [insertByMz, total, intensities]
  | cons y ys ih =>
    simp only [insertByMz]
    split
    · simp [total, intensities]
    · simp only [total, intensities, List.map_cons, List.sum_cons] at ih ⊢
      rw [ih]; ring

theorem sortFold_total (l acc : List Peak) :
    total (l.foldl (fun acc x => insertByMz x acc) acc) = total acc + total l := by
  induction l generalizing acc with
  | nil => simp [total, intensities]
  | cons x xs ih =>
    simp only [List.foldl_cons]
    rw [ih, insertByMz_total]
    simp only [total, intensities, List.map_cons, List.sum_cons]
    ring

theorem sortByMz_total (l : List Peak) : total (sortByMz l) = total l := by
  have := sortFold_total l []
  simpa [sortByMz, total, intensities] using this

/-! ### 4. the output -/

theorem Res.bind_eq_ok {α β} (r : Res α) (f : α → Res β) (b : β) (h : r.bind f = .ok b) :
    ∃ a, r = .ok a ∧ f a = .ok b := by
  cases r with
  | ok a => exact ⟨a, rfl, h⟩
  | err => cases h
  | panic => cases h

theorem mapRes_length {α β} (f : α → Res β) (l : List α) (ys : List β) (h : mapRes f l = .ok ys) :
    ys.length = l.length := by
  induction l generalizing ys with
  | nil => simp only [mapRes] at h; cases h; rfl
  | cons x xs ih =>
    simp only [mapRes] at h
    obtain ⟨y, _, h⟩ := Res.bind_eq_ok _ _ _ h
    obtain ⟨ys', h', h⟩ := Res.bind_eq_ok _ _ _ h
    cases h
    simp [ih ys' h']

theorem updateEsp_length (ps : DVec) (order : Int) (fuel : Nat) (esp : DVec)
    (h1 : esp.length ≤ ps.length) (h2 : ps.length - esp.length ≤ fuel) :
    (updateEsp ps order fuel esp).length = ps.length := by
  induction fuel generalizing esp with
  | zero => simp only [updateEsp]; omega
  | succ fuel ih =>
    simp only [updateEsp]
    split
    · apply ih
      · simp only [List.length_append, List.length_singleton]; omega
      · simp only [List.length_append, List.length_singleton]; omega
    · omega

theorem espOfPs_length (ps : DVec) (V : Int) : (espOfPs ps V).length = ps.length := by
  unfold espOfPs PolyParams.newton
  simp only [List.length_nil, Nat.not_lt_zero, if_false, Nat.sub_zero]
  split
  · exact updateEsp_length ps V ps.length [] (Nat.zero_le _) (by simp)
  · simp only [List.length_nil]; omega

theorem probabilityVector_length (consts : IsoConstants) (c : BComp) (order : Nat) (V : Int) (base : Rat)
    (prob : DVec) (h : probabilityVector consts c order V base = .ok prob) : prob.length = order + 1 := by
  unfold probabilityVector at h
  obtain ⟨phis, hphis, h⟩ := Res.bind_eq_ok _ _ _ h
  have hl := mapRes_length _ _ _ hphis
  cases h
  simp [espOfPs_length, hl]

theorem centerMassVector_length (consts : IsoConstants) (c : BComp) (order : Nat) (V : Int) (base one : Rat)
    (prob cm : DVec) (h : centerMassVector consts c order V base one prob = .ok cm) :
    cm.length = order + 1 := by
  unfold centerMassVector at h
  obtain ⟨polys, _, h⟩ := Res.bind_eq_ok _ _ _ h
  have hl := mapRes_length _ _ _ h
  simpa using hl

theorem zip_map_int (cm prob : DVec) (F : Rat → Rat) (tot : Rat) (h : cm.length = prob.length) :
    intensities ((cm.zip prob).map fun (m, p) => ({ mz := F m, int := p / tot } : Peak)) =
      prob.map (· / tot) := by
  induction cm generalizing prob with
  | nil =>
    cases prob with
    | nil => rfl
    | cons _ _ => simp at h
  | cons a as ih =>
    cases prob with
    | nil => simp at h
    | cons b bs =>
      simp only [List.length_cons, Nat.add_right_cancel_iff] at h
      have := ih bs h
      simp only [intensities, List.zip_cons_cons, List.map_cons, List.map_map] at this ⊢
      rw [this]

/-- anatomy of a successful `rawVariants`: one peak per variant `0..=order`, intensity `prob[i] / Σ prob` -/
theorem rawVariants_ok (K : BrainConsts) (consts : IsoConstants) (c : BComp) (order : Nat) (z : Int)
    (carrier : Rat) (raw : List Peak) (h : rawVariants K consts c order z carrier = .ok raw) :
    ∃ prob, probabilityVector consts c order (maxVariants c) (baseIntensity c K.one) = .ok prob ∧
      prob.length = order + 1 ∧ raw.length = order + 1 ∧
      intensities raw = prob.map (· / prob.sum) := by
  unfold rawVariants at h
  obtain ⟨prob, hprob, h⟩ := Res.bind_eq_ok _ _ _ h
  obtain ⟨cm, hcm, h⟩ := Res.bind_eq_ok _ _ _ h
  have hpl := probabilityVector_length _ _ _ _ _ _ hprob
  have hcl := centerMassVector_length _ _ _ _ _ _ _ _ hcm
  have htake : (cm.zip prob).take (order + 1) = cm.zip prob := by
    apply List.take_of_length_le
    simp [hpl, hcl]
  refine ⟨prob, hprob, hpl, ?_, ?_⟩
  · cases h
    simp [htake, hpl, hcl]
  · cases h
    rw [htake]
    exact zip_map_int cm prob (fun m => chargedMz m z carrier) prob.sum (by omega)

theorem rawVariants_length (K : BrainConsts) (consts : IsoConstants) (c : BComp) (order : Nat) (z : Int)
    (carrier : Rat) (raw : List Peak) (h : rawVariants K consts c order z carrier = .ok raw) :
    raw.length = order + 1 := by
  obtain ⟨_, _, _, hl, _⟩ := rawVariants_ok K consts c order z carrier raw h
  exact hl

theorem rawVariants_ne_nil (K : BrainConsts) (consts : IsoConstants) (c : BComp) (order : Nat) (z : Int)
    (carrier : Rat) (raw : List Peak) (h : rawVariants K consts c order z carrier = .ok raw) : raw ≠ [] := by
  intro e
  have := rawVariants_length K consts c order z carrier raw h
  rw [e] at this
  simp at this

/-- conversely a successful `variantsWith` comes from a successful `rawVariants` -/
theorem variantsWith_ok_iff (K : BrainConsts) (consts : IsoConstants) (c : BComp) (order : Nat) (z : Int)
    (carrier : Rat) (out : List Peak) :
    variantsWith K consts c order z carrier = .ok out ↔
      ∃ raw, rawVariants K consts c order z carrier = .ok raw ∧ out = sortByMz (cutLoop K.cut raw false) := by
  constructor
  · intro h
    unfold variantsWith at h
    obtain ⟨raw, hraw, h⟩ := Res.bind_eq_ok _ _ _ h
    cases h
    exact ⟨raw, hraw, rfl⟩
  · rintro ⟨raw, hraw, rfl⟩
    unfold variantsWith
    rw [hraw]; rfl

section Output
variable (K : BrainConsts) (consts : IsoConstants) (c : BComp) (order : Nat) (z : Int) (carrier : Rat)
  (raw : List Peak) (h : rawVariants K consts c order z carrier = .ok raw)
include h

/-- the output is the sorted cut of the raw variants -/
theorem variantsWith_eq :
    variantsWith K consts c order z carrier = .ok (sortByMz (cutLoop K.cut raw false)) := by
  unfold variantsWith
  rw [h]; rfl


/-- the output is never empty -/
theorem variantsWith_nonempty :
    ∃ out, variantsWith K consts c order z carrier = .ok out ∧ out ≠ [] :=
  ⟨_, variantsWith_eq K consts c order z carrier raw h,
    sortByMz_ne_nil _ (cutLoop_nonempty K.cut raw false
      (rawVariants_ne_nil K consts c order z carrier raw h) (Or.inr rfl))⟩

/-- **shape of the coarse pattern**: the output is non-empty, sorted by m/z, has at most `order + 1`
    peaks, every peak of it is a raw variant, every raw variant with share `≥ cut` is in it,
    and the very first variant (the monoisotopic one) is always in it. -/
theorem variantsWith_shape :
    ∃ out, variantsWith K consts c order z carrier = .ok out ∧
      out = sortByMz (cutLoop K.cut raw false) ∧
      out ≠ [] ∧
      out.Pairwise (fun a b => a.mz ≤ b.mz) ∧
      out.length ≤ order + 1 ∧
      raw.length = order + 1 ∧
      (∀ p ∈ out, p ∈ raw) ∧
      (∀ p ∈ raw, K.cut ≤ p.int → p ∈ out) ∧
      (∀ p, raw.head? = some p → p ∈ out) := by
  have hlen := rawVariants_length K consts c order z carrier raw h
  have hne := rawVariants_ne_nil K consts c order z carrier raw h
  refine ⟨_, variantsWith_eq K consts c order z carrier raw h, rfl, ?_, sortByMz_sorted _, ?_, hlen, ?_, ?_, ?_⟩
  · exact sortByMz_ne_nil _ (cutLoop_nonempty K.cut raw false hne (Or.inr rfl))
  · rw [sortByMz_length, ← hlen]; exact cutLoop_length_le _ _ _
  · intro p hp
    exact cutLoop_subset K.cut raw false p ((sortByMz_mem _ p).1 hp)
  · intro p hp hc
    exact (sortByMz_mem _ p).2 (cutLoop_keeps K.cut raw false p hp hc)
  · intro p hp
    cases raw with
    | nil => cases hp
    | cons q rest =>
      simp only [List.head?_cons, Option.some.injEq] at hp
      subst hp
      obtain ⟨t, ht⟩ := cutLoop_head K.cut q rest
      rw [sortByMz_mem, ht]
      exact List.mem_cons_self

/-- when no variant falls below the cut, the output is a permutation of all `order + 1` variants -/
theorem variantsWith_all (hall : ∀ p ∈ raw, K.cut ≤ p.int) :
    ∃ out, variantsWith K consts c order z carrier = .ok out ∧ out.Perm raw ∧ out.length = order + 1 := by
  have hcut : cutLoop K.cut raw false = raw := by
    rw [cutLoop_leading]
    have htw : raw.takeWhile (fun p => decide (p.int < K.cut)) = [] := by
      cases raw with
      | nil => rfl
      | cons q rest =>
        have : ¬ q.int < K.cut := not_lt.2 (hall q List.mem_cons_self)
        simp [this]
    have hdw : raw.dropWhile (fun p => decide (p.int < K.cut)) = raw := by
      have := List.takeWhile_append_dropWhile (p := fun p : Peak => decide (p.int < K.cut)) (l := raw)
      rw [htw] at this
      simpa using this
    rw [htw, hdw, List.nil_append, List.filter_eq_self]
    intro p hp
    simpa using hall p hp
  refine ⟨_, variantsWith_eq K consts c order z carrier raw h, ?_, ?_⟩
  · rw [hcut]; exact sortByMz_perm raw
  · rw [hcut, sortByMz_length]; exact rawVariants_length K consts c order z carrier raw h

/-! ### 5. intensities -/

omit h in
theorem sum_div_self (prob : DVec) (hs : prob.sum ≠ 0) : (prob.map (· / prob.sum)).sum = 1 := by
  rw [sum_map_div]
  exact div_self hs

/-- the raw intensities sum to 1 when the probability vector does not sum to 0 -/
theorem rawVariants_total (prob : DVec)
    (hprob : probabilityVector consts c order (maxVariants c) (baseIntensity c K.one) = .ok prob)
    (hs : prob.sum ≠ 0) : total raw = 1 := by
  obtain ⟨prob', hprob', _, _, hint⟩ := rawVariants_ok K consts c order z carrier raw h
  rw [hprob] at hprob'
  cases hprob'
  unfold total
  rw [hint]
  exact sum_div_self prob hs

/-- the returned intensities sum to `1 −` the share of the omitted variants (the sub-`cut` ones after
    the first variant with share `≥ cut`) -/
theorem variantsWith_total (prob : DVec)
    (hprob : probabilityVector consts c order (maxVariants c) (baseIntensity c K.one) = .ok prob)
    (hs : prob.sum ≠ 0) :
    ∃ out, variantsWith K consts c order z carrier = .ok out ∧
      total out = 1 - total ((raw.dropWhile (fun p => decide (p.int < K.cut))).filter
                              (fun p => decide (p.int < K.cut))) := by
  refine ⟨_, variantsWith_eq K consts c order z carrier raw h, ?_⟩
  rw [sortByMz_total, cutLoop_total, rawVariants_total K consts c order z carrier raw h prob hprob hs]

end Output

/-! ### the stateless entry point -/

/-- anatomy of a successful `brainVariants` call -/
theorem brainVariants_ok (K : BrainConsts) (c : BComp) (req : PeakReq) (z : Int) (carrier : Rat) (out : List Peak)
    (h : brainVariants K c req z carrier = .ok out) :
    ∃ consts raw, populate K c (resolveOrder K c req) = .ok consts ∧
      rawVariants K consts c (resolveOrder K c req).toNat z carrier = .ok raw ∧
      out = sortByMz (cutLoop K.cut raw false) := by
  unfold brainVariants at h
  obtain ⟨consts, hc, h⟩ := Res.bind_eq_ok _ _ _ h
  obtain ⟨raw, hraw, rfl⟩ := (variantsWith_ok_iff K consts c _ z carrier out).1 h
  exact ⟨consts, raw, hc, hraw, rfl⟩

/-- **C09, shape**: whatever is requested, a successful call returns a non-empty list, sorted by m/z,
    of at most `resolveOrder + 1 ≤ V + 1` peaks -/
theorem brainVariants_shape (K : BrainConsts) (c : BComp) (hV : 0 ≤ maxVariants c) (req : PeakReq) (z : Int)
    (carrier : Rat) (out : List Peak) (h : brainVariants K c req z carrier = .ok out) :
    out ≠ [] ∧ out.Pairwise (fun a b => a.mz ≤ b.mz) ∧
      (out.length : Int) ≤ resolveOrder K c req + 1 ∧ (out.length : Int) ≤ maxVariants c + 1 := by
  obtain ⟨consts, raw, _, hraw, rfl⟩ := brainVariants_ok K c req z carrier out h
  obtain ⟨out', ho, rfl, hne, hs, hl, _⟩ := variantsWith_shape K consts c _ z carrier raw hraw
  have hb := resolve_bounds K c hV req
  have ht := resolve_toNat K c hV req
  refine ⟨hne, hs, ?_, ?_⟩ <;> omega

/-! ### 6. non-vacuity: concrete resolutions -/

namespace C09Ex

/-- a two-isotope toy element: most abundant isotope 12 (mass 12000, 99 %), isotope 13 (shift 1) -/
def elemX : Elem :=
  { tkey := [88], sym := [88],
    isos := [⟨12, 12000, 9900, 6, 0⟩, ⟨13, 13003, 100, 7, 1⟩],
    mostIso := 12, mostMass := 12000, minShift := 0, maxShift := 1, elemNum := 6 }

def K0 : BrainConsts :=
  { one := 1000, lambdaFactor := 1800, maxIter := 255, guessCap := 20, guessFraction := 999 / 1000, cut := 1 / 1000000 }

/-- `X10`: ten variants beyond the monoisotopic one -/
def comp10 : BComp := [(elemX, 10)]
/-- `X2` -/
def comp2 : BComp := [(elemX, 2)]

example : maxVariants comp10 = 10 := by decide
example : resolveOrder K0 comp10 (.fixed 1) = 0 := by decide
example : resolveOrder K0 comp10 (.fixed 5) = 4 := by decide
example : resolveOrder K0 comp2 (.fixed 5) = 2 := by decide                   -- capped by V
example : resolveOrder K0 comp10 (.fixed 0) = 0 := by decide
example : resolveOrder K0 comp10 (.fixed (-1)) = 0 := by decide
example : resolveOrder K0 comp10 (.fixed (-2147483648)) = 0 := by decide      -- i32::MIN
example : resolveOrder K0 comp10 (.fixed 2147483647) = 10 := by decide        -- i32::MAX
example : resolveOrder K0 comp10 (.fixed 5) = min 4 (maxVariants comp10) := by decide
example : resolveOrder K0 comp10 (.fixed 5) = min (5 - 1) (maxVariants comp10) :=
  resolve_fixed K0 comp10 5 (by decide) (by decide)
example : 0 ≤ resolveOrder K0 comp10 .guess ∧ resolveOrder K0 comp10 .guess ≤ 10 :=
  resolve_bounds K0 comp10 (by decide) .guess

-- requests that go through the Poisson estimate (exact rational arithmetic, checked by the kernel)
example : poissonN (monoMassOf comp10 K0.one) K0.lambdaFactor K0.guessFraction K0.maxIter = 3 := by decide +kernel
example : resolveOrder K0 comp10 .guess = 3 := by decide +kernel
example : resolveOrder K0 comp2 .guess = 2 := by decide +kernel               -- capped by V
example : resolveOrder K0 comp10 (.percent (999 / 1000)) = 2 := by decide +kernel
example : resolveOrder K0 comp10 (.percent (1 / 2)) = 0 := by decide +kernel
example : resolveOrder K0 comp10 .guess =
    min (min (poissonN (monoMassOf comp10 K0.one) K0.lambdaFactor K0.guessFraction K0.maxIter : Int) K0.guessCap)
      (maxVariants comp10) :=
  resolve_guess K0 comp10 (by decide) (by decide)

-- the cut loop and the sort on a hand-made list: the leading sub-cut peak is kept, the trailing one is not
def pk (m i : Rat) : Peak := ⟨m, i⟩
example : cutLoop (1 / 10) [pk 1 (1 / 100), pk 2 (1 / 2), pk 3 (1 / 100), pk 4 (1 / 5)] false =
    [pk 1 (1 / 100), pk 2 (1 / 2), pk 4 (1 / 5)] := by decide +kernel
example : cutLoop (1 / 10) [pk 1 (1 / 100), pk 2 (1 / 200)] false = [pk 1 (1 / 100), pk 2 (1 / 200)] := by
  decide +kernel
example : sortByMz [pk 3 1, pk 1 2, pk 2 3, pk 1 4] = [pk 1 2, pk 1 4, pk 2 3, pk 3 1] := by decide +kernel

end C09Ex

end Chem
