import ChemProofs.Props.C03Exact
import ChemProofs.Props.C09Strict
/-
C09 — the m/z values of the list `brainVariants` RETURNS are strictly increasing.

`variants_exact` describes the returned list as `js.map exactPeak` for a duplicate-free index list `js`
(indices `≤ order`), sorted WEAKLY by m/z.  Here:

* `chargedMz_lt`            `chargedMz` is strictly increasing in the mass for every charge (0 included)
* `centre_strict_of_step`   consecutive strict increase of the centres on `0 ..= order` ⇒ strict increase
                            for all `i < j ≤ order` (transitivity)
* `pairwise_lt_of_le_of_inj` a weakly sorted image of a duplicate-free list under a map that is injective
                            on the list is strictly sorted
* `variants_mz_strict_of_step`  ExactHyp + consecutive strict centres ⇒ every `.ok out` of `brainVariants`
                            has `out.Pairwise (a.mz < b.mz)`
* `variants_mz_strict`      the same with the centre hypothesis discharged from `IncrOK` (per-neutron
                            increments in `[dlo, dhi]`), positive abundances and the gap condition
                            `j·(dhi − dlo) < dlo` for every `j < order` (via `centre_strict_prefix`, `exProb_pos`)
No `_partial` result: nothing is assumed beyond what the statements list.
-/
namespace Chem

/-- `chargedMz` is strictly increasing in the neutral mass, at every charge (including 0) -/
theorem chargedMz_lt (z : Int) (carrier : Rat) {m m' : Rat} (h : m < m') :
    chargedMz m z carrier < chargedMz m' z carrier := by
  unfold chargedMz
  split
  · exact h
  · rename_i hz
    have hp : (0 : Rat) < ((z.natAbs : Nat) : Rat) := by
      exact_mod_cast Int.natAbs_pos.2 hz
    exact div_lt_div_of_pos_right (by linarith) hp

/-- strict increase from one variant to the next, for all `j < order`, gives strict increase for all
    `i < j ≤ order` -/
theorem centre_strict_of_step (f : Nat → Rat) (order : Nat)
    (hstep : ∀ j, j + 1 ≤ order → f j < f (j + 1)) :
    ∀ i j, i < j → j ≤ order → f i < f j := by
  intro i j hij
  induction j with
  | zero => omega
  | succ k ih =>
    intro hk
    rcases Nat.lt_succ_iff_lt_or_eq.1 hij with h | rfl
    · exact lt_trans (ih h (by omega)) (hstep k hk)
    · exact hstep i hk

/-- a weakly sorted image of a duplicate-free list, under a key that is injective on the list, is
    strictly sorted -/
theorem pairwise_lt_of_le_of_inj {α} (g : α → Rat) (l : List α) (hnd : l.Nodup)
    (hinj : ∀ a ∈ l, ∀ b ∈ l, g a = g b → a = b)
    (hle : l.Pairwise (fun a b => g a ≤ g b)) : l.Pairwise (fun a b => g a < g b) := by
  have h2 := hnd.and hle
  refine h2.imp_of_mem ?_
  intro a b ha hb hab
  exact lt_of_le_of_ne hab.2 (fun h => hab.1 (hinj a ha b hb h))

/-- **C09, strict m/z of the returned list (parametric in the centre step)**: under `ExactHyp`, when the
    exact centre masses increase strictly from each variant `j < order` to the next, every list
    `brainVariants` returns has strictly increasing m/z — for every charge and carrier. -/
theorem variants_mz_strict_of_step (K : BrainConsts) (c : List (Elem × Nat)) (req : PeakReq) (z : Int)
    (carrier : Rat) (order : Nat) (H : ExactHyp K c req order)
    (hstep : ∀ j, j + 1 ≤ order → exCentre c K.one order j < exCentre c K.one order (j + 1))
    (out : List Peak) (hout : brainVariants K (toB c) req z carrier = .ok out) :
    out.Pairwise (fun a b => a.mz < b.mz) := by
  obtain ⟨js, hnd, hle, _, _, hbv, hsorted⟩ := variants_exact K c req z carrier order H
  rw [hbv] at hout
  injection hout with hout
  subst hout
  have hlt := centre_strict_of_step (exCentre c K.one order) order hstep
  rw [List.pairwise_map] at hsorted ⊢
  refine pairwise_lt_of_le_of_inj (fun j => (exactPeak c K.one order z carrier j).mz) js hnd ?_ hsorted
  intro a ha b hb hab
  simp only [exactPeak] at hab
  rcases Nat.lt_trichotomy a b with h | h | h
  · exact absurd hab (ne_of_lt (chargedMz_lt z carrier (hlt a b h (hle b hb))))
  · exact h
  · exact absurd hab (ne_of_gt (chargedMz_lt z carrier (hlt b a h (hle a ha))))

/-- **C09, strict m/z of the returned list**: for a composition satisfying `ExactHyp` whose elements have
    positive abundances and per-neutron mass increments in `[dlo, dhi]` (`IncrOK`), with the gap condition
    `j·(dhi − dlo) < dlo` for every `j < order`, every list `brainVariants` returns has strictly
    increasing m/z — for every charge and carrier. -/
theorem variants_mz_strict (K : BrainConsts) (c : List (Elem × Nat)) (req : PeakReq) (z : Int)
    (carrier : Rat) (order : Nat) (H : ExactHyp K c req order) (hone : 0 < K.one)
    (hab : ∀ x ∈ c, ∀ i ∈ x.1.isos, 0 < i.abund) (base : Elem → Rat) (dlo dhi : Rat)
    (hinc : ∀ x ∈ c, IncrOK x.1 K.one (base x.1) dlo dhi)
    (hgap : ∀ j, j + 1 ≤ order → (j : Rat) * (dhi - dlo) < dlo)
    (out : List Peak) (hout : brainVariants K (toB c) req z carrier = .ok out) :
    out.Pairwise (fun a b => a.mz < b.mz) := by
  refine variants_mz_strict_of_step K c req z carrier order H ?_ out hout
  intro j hj
  have hV0 := maxVariants_toB_nonneg c H.dom
  have hb := resolve_bounds K (toB c) hV0 req
  have ho := H.order_eq
  have hp : ∀ i, i ≤ order → exProb c K.one order i ≠ 0 := fun i hi =>
    ne_of_gt (exProb_pos c hone H.dom hab order i hi (by omega))
  exact centre_strict_prefix c (le_of_lt hone) (fun x hx i hi => le_of_lt (hab x hx i hi)) base dlo dhi
    hinc order j hj (hp j (by omega)) (hp (j + 1) hj) (hgap j hj)

end Chem

