import ChemProofs.Props.C03Exact
/-
C09 (continued) — the centre masses of the aggregated isotopic variants increase STRICTLY on an
explicit prefix.

If every extra neutron of every element of the composition adds between `dlo` and `dhi` mass units
(`IncrOK`, an entry-wise condition on the two coefficient lists of the element, checkable by the
kernel through `incrOKB`), then with `B = Σ nₑ · baseₑ`
    (B + dlo·j) · exProb j ≤ exMass j ≤ (B + dhi·j) · exProb j           (`aggMass_shift_bounds`)
    B + dlo·j ≤ exCentre j ≤ B + dhi·j            when exProb j ≠ 0      (`centre_shift_bounds`)
    exCentre j < exCentre (j+1)                   when j·(dhi − dlo) < dlo (`centre_strict_prefix`)
The proof goes through the Euler operator `Θ = X·d/dX` on power series (`coeff k (Θ F) = k · coeff k F`),
which is a derivation (`Theta_mul`, `Theta_pow`, `Theta_prod_map`), so that
    Σₑ nₑ · Θ Pₑ · Pₑ^(nₑ−1) · ∏_{e'≠e} P_{e'}^{n_{e'}} = Θ (∏ₑ Pₑ^nₑ),   whose coefficient `j` is `j · exProb j`.
-/

namespace Chem
open PowerSeries

/-! ## 1. the Euler operator `Θ = X · d/dX` -/

/-- `coeff k (Θ F) = k · coeff k F` -/
noncomputable def Theta (F : ℚ⟦X⟧) : ℚ⟦X⟧ := PowerSeries.mk fun k => (k : ℚ) * coeff k F

theorem coeff_Theta (F : ℚ⟦X⟧) (k : Nat) : coeff k (Theta F) = (k : ℚ) * coeff k F :=
  coeff_mk _ _

theorem Theta_add (A B : ℚ⟦X⟧) : Theta (A + B) = Theta A + Theta B := by
  ext k
  rw [map_add, coeff_Theta, coeff_Theta, coeff_Theta, map_add, mul_add]

theorem Theta_zero : Theta (0 : ℚ⟦X⟧) = 0 := by
  ext k
  rw [coeff_Theta, map_zero, mul_zero]

theorem Theta_one : Theta (1 : ℚ⟦X⟧) = 0 := by
  ext k
  rw [coeff_Theta, coeff_one, map_zero]
  by_cases hk : k = 0
  · rw [hk, Nat.cast_zero, zero_mul]
  · rw [if_neg hk, mul_zero]

/-- `Θ` is a derivation -/
theorem Theta_mul (A B : ℚ⟦X⟧) : Theta (A * B) = Theta A * B + A * Theta B := by
  ext n
  rw [coeff_Theta, map_add, coeff_mul, coeff_mul, coeff_mul, Finset.mul_sum,
    ← Finset.sum_add_distrib]
  apply Finset.sum_congr rfl
  intro p hp
  rw [coeff_Theta, coeff_Theta]
  have hn : n = p.1 + p.2 := (Finset.mem_antidiagonal.1 hp).symm
  rw [hn, Nat.cast_add]
  ring

theorem Theta_pow_succ (A : ℚ⟦X⟧) (n : Nat) :
    Theta (A ^ (n + 1)) = C ((n + 1 : Nat) : ℚ) * A ^ n * Theta A := by
  induction n with
  | zero => rw [Nat.zero_add, pow_one, pow_zero, Nat.cast_one, map_one, one_mul, one_mul]
  | succ n ih =>
    rw [pow_succ, Theta_mul, ih, Nat.cast_succ (n + 1), map_add, map_one]
    ring

theorem Theta_pow (A : ℚ⟦X⟧) (n : Nat) :
    Theta (A ^ n) = C (n : ℚ) * A ^ (n - 1) * Theta A := by
  cases n with
  | zero => rw [pow_zero, Theta_one, Nat.cast_zero, map_zero, zero_mul, zero_mul]
  | succ n => rw [Theta_pow_succ, Nat.add_sub_cancel]

theorem Theta_list_sum (l : List ℚ⟦X⟧) : Theta l.sum = (l.map Theta).sum := by
  induction l with
  | nil => rw [List.sum_nil, List.map_nil, List.sum_nil, Theta_zero]
  | cons A l ih => rw [List.sum_cons, Theta_add, ih, List.map_cons, List.sum_cons]

/-- Leibniz rule over a list product, the other factors expressed through `List.eraseIdx` -/
theorem Theta_prod_map_aux {α} (f : α → ℚ⟦X⟧) (l : List α) (k : Nat) :
    Theta (l.map f).prod =
      ((l.zipIdx k).map fun p => Theta (f p.1) * ((l.eraseIdx (p.2 - k)).map f).prod).sum := by
  induction l generalizing k with
  | nil => rw [List.map_nil, List.prod_nil, Theta_one, List.zipIdx_nil, List.map_nil, List.sum_nil]
  | cons a t ih =>
    rw [List.map_cons, List.prod_cons, Theta_mul, ih (k + 1), List.zipIdx_cons, List.map_cons,
      List.sum_cons, ← List.sum_map_mul_left]
    dsimp only
    rw [Nat.sub_self, List.eraseIdx_cons_zero]
    congr 1
    congr 1
    apply List.map_congr_left
    intro p hp
    have hle : k + 1 ≤ p.2 := List.le_snd_of_mem_zipIdx hp
    have he : p.2 - k = (p.2 - (k + 1)) + 1 := by omega
    rw [he, List.eraseIdx_cons_succ, List.map_cons, List.prod_cons, mul_left_comm]

theorem Theta_prod_map {α} (f : α → ℚ⟦X⟧) (l : List α) :
    Theta (l.map f).prod =
      (l.zipIdx.map fun p => Theta (f p.1) * ((l.eraseIdx p.2).map f).prod).sum :=
  Theta_prod_map_aux f l 0

/-! ## 2. the hypothesis: every index step adds between `dlo` and `dhi` mass units -/

/-- the hypothesis, phrased on coefficients so that it is checkable entry by entry -/
def IncrOK (e : Elem) (one base dlo dhi : Rat) : Prop :=
  ∀ k : Nat, dlo * k * (Spec.elemPoly e one false).getD k 0 ≤
                (Spec.elemPoly e one true).getD k 0 - base * (Spec.elemPoly e one false).getD k 0 ∧
             (Spec.elemPoly e one true).getD k 0 - base * (Spec.elemPoly e one false).getD k 0 ≤
                dhi * k * (Spec.elemPoly e one false).getD k 0

/-- the isotope form of the hypothesis (what `IncrOK` means, through `elemPoly_entry`): it suffices
    that `dlo·k·aᵢ ≤ (mᵢ − base)·aᵢ ≤ dhi·k·aᵢ` for every isotope `i` and every index `k` -/
theorem incrOK_of_isos (e : Elem) (one base dlo dhi : Rat)
    (h : ∀ i ∈ e.isos, ∀ k : Nat,
      (Spec.elemPoly e one false).getD k 0 = (i.abund : Rat) / one →
      dlo * k * ((i.abund : Rat) / one) ≤ ((i.mass : Rat) / one - base) * ((i.abund : Rat) / one) ∧
      ((i.mass : Rat) / one - base) * ((i.abund : Rat) / one) ≤ dhi * k * ((i.abund : Rat) / one)) :
    IncrOK e one base dlo dhi := by
  intro k
  rcases elemPoly_entry e one k with ⟨h0, h1⟩ | ⟨i, hi, h0, h1⟩
  · rw [h0, h1]
    constructor <;> norm_num
  · obtain ⟨ha, hb⟩ := h i hi k h0
    rw [h0, h1]
    constructor <;> linarith

/-- coefficient-wise: `C base · Pₑ + dlo • Θ Pₑ ≤ Mₑ ≤ C base · Pₑ + dhi • Θ Pₑ` -/
theorem elemM_shift (e : Elem) (one base dlo dhi : Rat) (h : IncrOK e one base dlo dhi) :
    CLe (C base * toPS (Spec.elemPoly e one false) + C dlo * Theta (toPS (Spec.elemPoly e one false)))
        (toPS (Spec.elemPoly e one true)) ∧
    CLe (toPS (Spec.elemPoly e one true))
        (C base * toPS (Spec.elemPoly e one false) + C dhi * Theta (toPS (Spec.elemPoly e one false))) := by
  constructor
  · intro k
    rw [map_add, coeff_C_mul, coeff_C_mul, coeff_Theta, coeff_toPS, coeff_toPS]
    have := (h k).1
    linarith
  · intro k
    rw [map_add, coeff_C_mul, coeff_C_mul, coeff_Theta, coeff_toPS, coeff_toPS]
    have := (h k).2
    linarith

/-- entry-wise check over the (finitely many) coefficient indices of the element's polynomials -/
def incrOKB (e : Elem) (one base dlo dhi : Rat) : Bool :=
  (List.range ((Spec.elemPoly e one false).length)).all fun k =>
    decide (dlo * k * (Spec.elemPoly e one false).getD k 0 ≤
      (Spec.elemPoly e one true).getD k 0 - base * (Spec.elemPoly e one false).getD k 0) &&
    decide ((Spec.elemPoly e one true).getD k 0 - base * (Spec.elemPoly e one false).getD k 0 ≤
      dhi * k * (Spec.elemPoly e one false).getD k 0)

theorem elemPoly_length (e : Elem) (one : Rat) (b : Bool) :
    (Spec.elemPoly e one b).length =
      ((e.isos.map (·.shift)).foldl max 0 - (e.isos.map (·.shift)).foldl min 0).toNat + 1 := by
  unfold Spec.elemPoly
  rw [List.length_map, List.length_range]

theorem incrOK_of_B (e : Elem) (one base dlo dhi : Rat) (h : incrOKB e one base dlo dhi = true) :
    IncrOK e one base dlo dhi := by
  intro k
  by_cases hk : k < (Spec.elemPoly e one false).length
  · unfold incrOKB at h
    rw [List.all_eq_true] at h
    have hk' := h k (List.mem_range.2 hk)
    rw [Bool.and_eq_true, decide_eq_true_eq, decide_eq_true_eq] at hk'
    exact hk'
  · have h0 : (Spec.elemPoly e one false).getD k 0 = 0 :=
      List.getD_eq_default _ _ (Nat.le_of_not_lt hk)
    have h1 : (Spec.elemPoly e one true).getD k 0 = 0 := by
      apply List.getD_eq_default
      rw [elemPoly_length e one true, ← elemPoly_length e one false]
      exact Nat.le_of_not_lt hk
    rw [h0, h1]
    constructor <;> norm_num

/-! ## 3. the shifted bounds -/

/-- one summand of `aggMass`, between
    `nₑ·baseₑ·aggProb j + d · [x^j] Θ(Pₑ^nₑ) · ∏_{e'≠e} P_{e'}^{n_{e'}}` for `d = dlo` and `d = dhi` -/
theorem massTerm_shift_bounds (c : List (Elem × Nat)) {one : Rat} (hone : 0 ≤ one)
    (hab : ∀ x ∈ c, ∀ i ∈ x.1.isos, 0 ≤ i.abund) (base : Elem → Rat) (dlo dhi : Rat)
    (hinc : ∀ x ∈ c, IncrOK x.1 one (base x.1) dlo dhi)
    (idx : Nat) (h : idx < c.length) (hn : c[idx].2 ≠ 0) (j : Nat) :
    (c[idx].2 : Rat) * (base c[idx].1 * coeff j (probPS c one)) +
        dlo * coeff j (Theta (toPS (Spec.elemPoly c[idx].1 one false) ^ c[idx].2) *
          ((c.eraseIdx idx).map fun y => toPS (Spec.elemPoly y.1 one false) ^ y.2).prod) ≤
      (c[idx].2 : Rat) * coeff j (toPS (Spec.elemPoly c[idx].1 one true) *
        toPS (Spec.elemPoly c[idx].1 one false) ^ (c[idx].2 - 1)
        * ((c.eraseIdx idx).map fun y => toPS (Spec.elemPoly y.1 one false) ^ y.2).prod) ∧
    (c[idx].2 : Rat) * coeff j (toPS (Spec.elemPoly c[idx].1 one true) *
        toPS (Spec.elemPoly c[idx].1 one false) ^ (c[idx].2 - 1)
        * ((c.eraseIdx idx).map fun y => toPS (Spec.elemPoly y.1 one false) ^ y.2).prod) ≤
      (c[idx].2 : Rat) * (base c[idx].1 * coeff j (probPS c one)) +
        dhi * coeff j (Theta (toPS (Spec.elemPoly c[idx].1 one false) ^ c[idx].2) *
          ((c.eraseIdx idx).map fun y => toPS (Spec.elemPoly y.1 one false) ^ y.2).prod) := by
  have hx : c[idx] ∈ c := List.getElem_mem h
  generalize hxe : c[idx] = x at hx hn ⊢
  have hP := elemP_nn x.1 hone (hab x hx)
  have hR : NN ((c.eraseIdx idx).map fun y => toPS (Spec.elemPoly y.1 one false) ^ y.2).prod := by
    apply NN.list_prod
    intro A hA
    obtain ⟨y, hy, rfl⟩ := List.mem_map.1 hA
    exact (elemP_nn y.1 hone (hab y (List.mem_of_mem_eraseIdx hy))).pow _
  have hprod : probPS c one = toPS (Spec.elemPoly x.1 one false) *
      toPS (Spec.elemPoly x.1 one false) ^ (x.2 - 1) *
      ((c.eraseIdx idx).map fun y => toPS (Spec.elemPoly y.1 one false) ^ y.2).prod := by
    unfold probPS
    rw [prod_map_eraseIdx (fun y : Elem × Nat => toPS (Spec.elemPoly y.1 one false) ^ y.2) c idx h,
      hxe, ← pow_succ']
    congr 3
    omega
  generalize ((c.eraseIdx idx).map fun y => toPS (Spec.elemPoly y.1 one false) ^ y.2).prod = R
    at hR hprod ⊢
  have hnn : (0 : Rat) ≤ (x.2 : Rat) := Nat.cast_nonneg _
  -- the two sides as coefficients of one power series
  have key : ∀ d : Rat,
      (x.2 : Rat) * (base x.1 * coeff j (probPS c one)) +
        d * coeff j (Theta (toPS (Spec.elemPoly x.1 one false) ^ x.2) * R) =
      (x.2 : Rat) * coeff j ((C (base x.1) * toPS (Spec.elemPoly x.1 one false) +
        C d * Theta (toPS (Spec.elemPoly x.1 one false))) *
        toPS (Spec.elemPoly x.1 one false) ^ (x.2 - 1) * R) := by
    intro d
    rw [← coeff_C_mul, ← coeff_C_mul, ← coeff_C_mul, ← coeff_C_mul, ← map_add, hprod, Theta_pow]
    congr 1
    ring
  obtain ⟨h1, h2⟩ := elemM_shift x.1 one (base x.1) dlo dhi (hinc x hx)
  constructor
  · rw [key]
    exact mul_le_mul_of_nonneg_left (((h1.mul_right (hP.pow _)).mul_right hR) j) hnn
  · rw [key]
    exact mul_le_mul_of_nonneg_left (((h2.mul_right (hP.pow _)).mul_right hR) j) hnn

/-- `[x^j] Θ (∏ Pₑ^nₑ) = j · aggProb j`, spelled out with the Leibniz rule -/
theorem sum_Theta_terms (c : List (Elem × Nat)) (one : Rat) (j : Nat) :
    (c.zipIdx.map fun p : (Elem × Nat) × Nat =>
      coeff j (Theta (toPS (Spec.elemPoly p.1.1 one false) ^ p.1.2) *
        ((c.eraseIdx p.2).map fun y => toPS (Spec.elemPoly y.1 one false) ^ y.2).prod)).sum =
      (j : Rat) * coeff j (probPS c one) := by
  rw [← coeff_Theta, probPS,
    Theta_prod_map (fun y : Elem × Nat => toPS (Spec.elemPoly y.1 one false) ^ y.2) c,
    map_list_sum, List.map_map]
  rfl

/-- **coefficient-wise shifted bounds**: `(B + dlo·j)·aggProb j ≤ aggMass j ≤ (B + dhi·j)·aggProb j`
    with `B = Σ nₑ·baseₑ`, whenever every index step of every element adds between `dlo` and `dhi`
    mass units to `baseₑ` (`IncrOK`) and the abundances are non-negative -/
theorem aggMass_shift_bounds (c : List (Elem × Nat)) {one : Rat} (hone : 0 ≤ one)
    (hab : ∀ x ∈ c, ∀ i ∈ x.1.isos, 0 ≤ i.abund) (base : Elem → Rat) (dlo dhi : Rat)
    (hinc : ∀ x ∈ c, IncrOK x.1 one (base x.1) dlo dhi) (deg j : Nat) (hj : j ≤ deg) :
    (massBound base c + dlo * j) * exProb c one deg j ≤ exMass c one deg j ∧
      exMass c one deg j ≤ (massBound base c + dhi * j) * exProb c one deg j := by
  have hM : exMass c one deg j =
      (c.zipIdx.map fun (p : (Elem × Nat) × Nat) =>
        if p.1.2 = 0 then (0 : Rat) else
          (p.1.2 : Rat) * coeff j
            (toPS (Spec.elemPoly p.1.1 one true) * toPS (Spec.elemPoly p.1.1 one false) ^ (p.1.2 - 1)
              * ((c.eraseIdx p.2).map fun y => toPS (Spec.elemPoly y.1 one false) ^ y.2).prod)).sum := by
    unfold exMass
    rw [← coeff_toPS]
    exact coeff_toPS_aggMass' c one deg j hj
  have hB : ∀ d : Rat, (massBound base c + d * j) * exProb c one deg j =
      (c.zipIdx.map fun p : (Elem × Nat) × Nat =>
        (p.1.2 : Rat) * (base p.1.1 * coeff j (probPS c one)) +
          d * coeff j (Theta (toPS (Spec.elemPoly p.1.1 one false) ^ p.1.2) *
            ((c.eraseIdx p.2).map fun y => toPS (Spec.elemPoly y.1 one false) ^ y.2).prod)).sum := by
    intro d
    rw [List.sum_map_add, List.sum_map_mul_left, sum_Theta_terms, exProb_eq_coeff c one deg j hj,
      add_mul, mul_assoc d]
    congr 1
    rw [massBound, ← List.sum_map_mul_right]
    generalize coeff j (probPS c one) = Pj
    conv_lhs => rw [← List.zipIdx_map_fst 0 c]
    rw [List.map_map]
    congr 1
    apply List.map_congr_left
    intro p _
    simp only [Function.comp]
    ring
  have hterm : ∀ p ∈ c.zipIdx,
      (p.1.2 : Rat) * (base p.1.1 * coeff j (probPS c one)) +
          dlo * coeff j (Theta (toPS (Spec.elemPoly p.1.1 one false) ^ p.1.2) *
            ((c.eraseIdx p.2).map fun y => toPS (Spec.elemPoly y.1 one false) ^ y.2).prod) ≤
        (if p.1.2 = 0 then (0 : Rat) else
          (p.1.2 : Rat) * coeff j
            (toPS (Spec.elemPoly p.1.1 one true) * toPS (Spec.elemPoly p.1.1 one false) ^ (p.1.2 - 1)
              * ((c.eraseIdx p.2).map fun y => toPS (Spec.elemPoly y.1 one false) ^ y.2).prod)) ∧
      (if p.1.2 = 0 then (0 : Rat) else
          (p.1.2 : Rat) * coeff j
            (toPS (Spec.elemPoly p.1.1 one true) * toPS (Spec.elemPoly p.1.1 one false) ^ (p.1.2 - 1)
              * ((c.eraseIdx p.2).map fun y => toPS (Spec.elemPoly y.1 one false) ^ y.2).prod)) ≤
        (p.1.2 : Rat) * (base p.1.1 * coeff j (probPS c one)) +
          dhi * coeff j (Theta (toPS (Spec.elemPoly p.1.1 one false) ^ p.1.2) *
            ((c.eraseIdx p.2).map fun y => toPS (Spec.elemPoly y.1 one false) ^ y.2).prod) := by
    rintro ⟨x, idx⟩ hp
    rw [List.mem_zipIdx_iff_getElem?] at hp
    obtain ⟨hlt, hget⟩ := List.getElem?_eq_some_iff.1 hp
    dsimp only
    by_cases hn : x.2 = 0
    · rw [if_pos hn, hn, pow_zero, Theta_one, zero_mul, map_zero, Nat.cast_zero, zero_mul,
        mul_zero, mul_zero, add_zero]
      exact ⟨le_refl _, le_refl _⟩
    · rw [if_neg hn]
      have hb := massTerm_shift_bounds c hone hab base dlo dhi hinc idx hlt (by rw [hget]; exact hn) j
      rw [hget] at hb
      exact hb
  constructor
  · rw [hB dlo, hM]
    exact List.sum_le_sum fun p hp => (hterm p hp).1
  · rw [hB dhi, hM]
    exact List.sum_le_sum fun p hp => (hterm p hp).2

/-- the centre mass of variant `j` lies between `B + dlo·j` and `B + dhi·j` -/
theorem centre_shift_bounds (c : List (Elem × Nat)) {one : Rat} (hone : 0 ≤ one)
    (hab : ∀ x ∈ c, ∀ i ∈ x.1.isos, 0 ≤ i.abund) (base : Elem → Rat) (dlo dhi : Rat)
    (hinc : ∀ x ∈ c, IncrOK x.1 one (base x.1) dlo dhi) (deg j : Nat) (hj : j ≤ deg)
    (hp : exProb c one deg j ≠ 0) :
    massBound base c + dlo * j ≤ exCentre c one deg j ∧
      exCentre c one deg j ≤ massBound base c + dhi * j := by
  have hpos : 0 < exProb c one deg j :=
    lt_of_le_of_ne (exProb_nonneg c hone hab deg j hj) (Ne.symm hp)
  obtain ⟨h1, h2⟩ := aggMass_shift_bounds c hone hab base dlo dhi hinc deg j hj
  unfold exCentre
  exact ⟨(le_div_iff₀ hpos).2 h1, (div_le_iff₀ hpos).2 h2⟩

/-- **C09, strict increase on a prefix**: as long as `j·(dhi − dlo) < dlo`, the centre mass of
    variant `j + 1` is strictly larger than that of variant `j` -/
theorem centre_strict_prefix (c : List (Elem × Nat)) {one : Rat} (hone : 0 ≤ one)
    (hab : ∀ x ∈ c, ∀ i ∈ x.1.isos, 0 ≤ i.abund) (base : Elem → Rat) (dlo dhi : Rat)
    (hinc : ∀ x ∈ c, IncrOK x.1 one (base x.1) dlo dhi) (deg j : Nat) (hj : j + 1 ≤ deg)
    (hp : exProb c one deg j ≠ 0) (hp' : exProb c one deg (j + 1) ≠ 0)
    (hgap : (j : Rat) * (dhi - dlo) < dlo) :
    exCentre c one deg j < exCentre c one deg (j + 1) := by
  have h1 := (centre_shift_bounds c hone hab base dlo dhi hinc deg j (Nat.le_of_succ_le hj) hp).2
  have h2 := (centre_shift_bounds c hone hab base dlo dhi hinc deg (j + 1) hj hp').1
  rw [Nat.cast_succ] at h2
  have h3 : massBound base c + dhi * j < massBound base c + dlo * ((j : Rat) + 1) := by linarith
  exact lt_of_le_of_lt h1 (lt_of_lt_of_le h3 h2)

/-! ## 4. non-vacuity -/

namespace C09StrictEx

/-- a two-isotope element: masses 12 and 13.0034, abundances 0.99 / 0.01 (`one = 10000`) -/
def exC : Elem :=
  { tkey := [67], sym := [67],
    isos := [{ key := 12, mass := 120000, abund := 9900, neutrons := 6, shift := 0 },
             { key := 13, mass := 130034, abund := 100, neutrons := 7, shift := 1 }],
    mostIso := 12, mostMass := 120000, minShift := 0, maxShift := 1, elemNum := 12 }

/-- a three-isotope element: masses 15.9949, 16.9991, 17.9992, abundances 0.9976 / 0.0004 / 0.0020 -/
def exO : Elem :=
  { tkey := [79], sym := [79],
    isos := [{ key := 16, mass := 159949, abund := 9976, neutrons := 8, shift := 0 },
             { key := 17, mass := 169991, abund := 4, neutrons := 9, shift := 1 },
             { key := 18, mass := 179992, abund := 20, neutrons := 10, shift := 2 }],
    mostIso := 16, mostMass := 159949, minShift := 0, maxShift := 2, elemNum := 16 }

/-- C₂O -/
def exCO : List (Elem × Nat) := [(exC, 2), (exO, 1)]

/-- base mass: the lightest isotope -/
def exBase (e : Elem) : Rat := (lightest e : Rat) / 10000

example : Spec.elemPoly exC 10000 false = [99 / 100, 1 / 100] := by decide +kernel
example : Spec.elemPoly exC 10000 true = [12 * (99 / 100), 130034 / 10000 * (1 / 100)] := by
  decide +kernel

/-- each extra neutron adds between 1 and 1.0034 mass units to ¹²C: the Boolean check, by `decide`
    (core `Rat` arithmetic is irreducible for the elaborator's default `decide`, hence either
    `with_unfolding_all decide` or `decide +kernel`) -/
example : incrOKB exC 10000 12 1 (10034 / 10000) = true := by with_unfolding_all decide
example : incrOKB exC 10000 12 1 (10034 / 10000) = true := by decide +kernel

/-- the step of `exC` is exactly 1.0034: a smaller upper slope is rejected -/
example : incrOKB exC 10000 12 1 (10033 / 10000) = false := by decide +kernel

theorem exC_incr : IncrOK exC 10000 (exBase exC) 1 (10043 / 10000) :=
  incrOK_of_B _ _ _ _ _ (by decide +kernel)

theorem exO_incr : IncrOK exO 10000 (exBase exO) 1 (10043 / 10000) :=
  incrOK_of_B _ _ _ _ _ (by decide +kernel)

theorem exCO_mem : ∀ x ∈ exCO, x = (exC, 2) ∨ x = (exO, 1) := by
  intro x hx; simpa [exCO] using hx

theorem exCO_ab : ∀ x ∈ exCO, ∀ i ∈ x.1.isos, 0 ≤ i.abund := by
  intro x hx
  rcases exCO_mem x hx with rfl | rfl <;> decide

theorem exCO_incr : ∀ x ∈ exCO, IncrOK x.1 10000 (exBase x.1) 1 (10043 / 10000) := by
  intro x hx
  rcases exCO_mem x hx with rfl | rfl
  · exact exC_incr
  · exact exO_incr

/-- all four variants of C₂O have non-zero probability -/
theorem exCO_prob : ∀ j : Fin 5, exProb exCO 10000 4 j.1 ≠ 0 := by decide +kernel

/-- the gap condition `j·(dhi − dlo) < dlo` holds for every `j < 232` (here: `j ≤ 3`) -/
theorem exCO_gap : ∀ j : Fin 4, ((j.1 : Nat) : Rat) * (10043 / 10000 - 1) < 1 := by decide +kernel

/-- the instance of `centre_strict_prefix`: the centre masses of the variants 0..4 of C₂O increase
    strictly -/
theorem exCO_strict (j : Nat) (hj : j + 1 ≤ 4) :
    exCentre exCO 10000 4 j < exCentre exCO 10000 4 (j + 1) :=
  centre_strict_prefix exCO (by norm_num) exCO_ab exBase 1 (10043 / 10000) exCO_incr 4 j hj
    (exCO_prob ⟨j, by omega⟩) (exCO_prob ⟨j + 1, by omega⟩) (exCO_gap ⟨j, by omega⟩)

/-- the instance of `centre_shift_bounds`, `B = 2·12 + 15.9949` -/
example (j : Nat) (hj : j ≤ 4) :
    399949 / 10000 + 1 * (j : Rat) ≤ exCentre exCO 10000 4 j ∧
      exCentre exCO 10000 4 j ≤ 399949 / 10000 + 10043 / 10000 * (j : Rat) := by
  have h := centre_shift_bounds exCO (by norm_num) exCO_ab exBase 1 (10043 / 10000) exCO_incr 4 j hj
    (exCO_prob ⟨j, by omega⟩)
  have hB : massBound exBase exCO = 399949 / 10000 := by decide +kernel
  rw [hB] at h
  exact h

/-- … and the values themselves, evaluated by the kernel -/
example : (List.range 5).map (exCentre exCO 10000 4) =
    [399949 / 10000, 2085584313 / 50870000, 319299931 / 7602500, 426155799 / 9910000,
      22003 / 500] := by decide +kernel

end C09StrictEx

end Chem

#print axioms Chem.aggMass_shift_bounds
#print axioms Chem.centre_shift_bounds
#print axioms Chem.centre_strict_prefix
#print axioms Chem.incrOK_of_B
#print axioms Chem.C09StrictEx.exCO_strict
