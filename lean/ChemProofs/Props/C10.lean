import Mathlib.Tactic.FieldSimp
import Mathlib.Tactic.Ring
import Mathlib.Tactic.Linarith
import Mathlib.Algebra.Order.Field.Rat
import ChemProofs.Model.Poisson
import ChemProofs.Model.Convolution
import ChemProofs.Model.Brain
/-
C10 — charge only rescales m/z; charge 0 means neutral masses.

Proved for all three generators, with no side conditions (every `z : Int` of either sign, every carrier,
threshold, composition, cache): the result at charge `z` is the result at charge 0 with each peak's `mz`
replaced by `chargedMz mz z c` (`rescale z c`), same peaks, same order, same intensities, and the same
failure behaviour (`none` / `err` / `panic` at one charge iff at every charge):
  Poisson      `poisson_charge`
  convolution  `conv_charge_peaks`, `conv_charge`, `conv_charge_mz`, `conv_charge_length`
  BRAIN        `raw_charge`, `cutLoop_map`, `sortByMz_map_strictMono`, `brain_charge`,
               `brainVariants_charge`, `generatorCall_charge` (+ `_int` / `_mz` projections)
Nothing is left as `_partial`.
-/
namespace Chem

theorem natAbs_cast_pos (z : Int) (hz : z ≠ 0) : (0 : Rat) < ((z.natAbs : Nat) : Rat) := by
  have := Int.natAbs_pos.2 hz
  exact_mod_cast this

/-- `neutral_mass` inverts `mass_charge_ratio` for every non-zero charge of either sign -/
theorem neutral_inverts (m c : Rat) (z : Int) (hz : z ≠ 0) (x : Rat) (h : mzOf m z c = some x) :
    neutralOf x z c = m := by
  unfold mzOf at h
  simp only [hz, if_false] at h
  injection h with h
  subst h
  unfold neutralOf
  have := (natAbs_cast_pos z hz).ne'
  field_simp
  ring

/-- `mass_charge_ratio` is defined exactly for the non-zero charges -/
theorem mzOf_isSome (m c : Rat) (z : Int) : (mzOf m z c).isSome = true ↔ z ≠ 0 := by
  unfold mzOf; split <;> simp_all

/-- the guarded conversion of the generators: charge 0 returns the neutral mass itself … -/
theorem chargedMz_zero (m c : Rat) : chargedMz m 0 c = m := by simp [chargedMz]

/-- … and a non-zero charge gives `(m + z·carrier)/|z|`, i.e. `mass_charge_ratio` -/
theorem chargedMz_ne (m c : Rat) (z : Int) (hz : z ≠ 0) :
    chargedMz m z c = (m + (z : Rat) * c) / ((z.natAbs : Nat) : Rat) ∧ mzOf m z c = some (chargedMz m z c) := by
  simp [chargedMz, mzOf, hz]

/-- for `z ≠ 0` the rescaling is strictly increasing in the neutral mass, so sorting by m/z and
    rescaling commute (used for the coarse generator, which sorts after converting) -/
theorem chargedMz_strictMono (c : Rat) (z : Int) (m m' : Rat) (h : m < m') :
    chargedMz m z c < chargedMz m' z c := by
  by_cases hz : z = 0
  · simp [chargedMz, hz, h]
  · simp only [chargedMz, hz, if_false]
    have hp := natAbs_cast_pos z hz
    exact div_lt_div_of_pos_right (by linarith) hp

/-- **Poisson generator**: same number of peaks and the same intensities at every charge, and each
    m/z is the corresponding neutral mass converted for the charge; at charge 0 the m/z values are
    the neutral masses `mass + i·shift` themselves. -/
theorem poisson_charge (mass : Rat) (n : Nat) (z : Int) (lf ns pr : Rat) :
    (poisson mass n z lf ns pr).length = (poisson mass n 0 lf ns pr).length ∧
    (poisson mass n z lf ns pr).map (·.int) = (poisson mass n 0 lf ns pr).map (·.int) ∧
    (poisson mass n z lf ns pr).map (·.mz) = (poisson mass n 0 lf ns pr).map (fun p => chargedMz p.mz z pr) := by
  unfold poisson
  split
  · simp
  · simp [List.map_map, Function.comp_def, chargedMz_zero]

/-- non-vacuity -/
example : mzOf 1000 2 (1007276 / 1000000) = some ((1000 + 2 * (1007276 / 1000000)) / 2) := by
  simp [mzOf]
example : (poisson 1200 4 0 1800 1 1).map (·.mz) = [1200, 1201, 1202, 1203] := by decide +kernel


/-! ## Charge only rescales m/z: the fine-structure (convolution) generator -/

/-- replace the m/z of a peak by `f mz`, keep the intensity -/
def mapMz (f : Rat → Rat) (p : Peak) : Peak := { p with mz := f p.mz }

/-- the rescaling applied by a generator called with charge `z` and carrier mass `c` -/
def rescale (z : Int) (c : Rat) : Peak → Peak := mapMz (fun m => chargedMz m z c)

theorem rescale_eq (z : Int) (c : Rat) : rescale z c = fun p => { p with mz := chargedMz p.mz z c } := rfl

@[simp] theorem mapMz_int (f : Rat → Rat) (p : Peak) : (mapMz f p).int = p.int := rfl
@[simp] theorem mapMz_mz (f : Rat → Rat) (p : Peak) : (mapMz f p).mz = f p.mz := rfl
@[simp] theorem rescale_int (z : Int) (c : Rat) (p : Peak) : (rescale z c p).int = p.int := rfl
@[simp] theorem rescale_mz (z : Int) (c : Rat) (p : Peak) : (rescale z c p).mz = chargedMz p.mz z c := rfl

/-- at charge 0 the rescaling is the identity -/
theorem rescale_zero (c : Rat) : rescale 0 c = id := by
  funext p; cases p; simp [rescale, mapMz, chargedMz_zero]

theorem total_map_int (g : Peak → Peak) (hg : ∀ p, (g p).int = p.int) (l : List Peak) :
    total (l.map g) = total l := by
  simp [total, intensities, List.map_map, Function.comp_def, hg]

/-- `normalize` looks at intensities only and keeps every `mz` -/
theorem normalize_mapMz (f : Rat → Rat) (P Q : Pattern) (h : Q.peaks = P.peaks.map (mapMz f)) :
    Q.normalize.map (·.peaks) = P.normalize.map (fun q => q.peaks.map (mapMz f)) := by
  have ht : total Q.peaks = total P.peaks := by rw [h]; exact total_map_int (mapMz f) (fun _ => rfl) _
  have he : Q.peaks.isEmpty = P.peaks.isEmpty := by rw [h]; simp
  unfold Pattern.normalize
  rw [he, ht]
  by_cases h1 : P.peaks.isEmpty = true
  · simp only [h1, if_true, Option.map_some]; rw [h]
  · simp only [h1]
    by_cases h2 : total P.peaks = 0
    · simp [h2]
    · simp only [h2, if_false, Bool.false_eq_true, Option.map_some, Pattern.scaleBy]
      rw [h]; simp [List.map_map, Function.comp_def, mapMz]

/-- `ignore_below` looks at intensities only and keeps every `mz` -/
theorem ignoreBelow_mapMz (f : Rat → Rat) (t : Rat) (P Q : Pattern) (h : Q.peaks = P.peaks.map (mapMz f)) :
    (Q.ignoreBelow t).map (·.peaks) = (P.ignoreBelow t).map (fun q => q.peaks.map (mapMz f)) := by
  unfold Pattern.ignoreBelow
  apply normalize_mapMz
  simp only [h, List.filter_map]
  congr 1

/-- the part of `isotopic_convolution` after the charge step -/
theorem convTail_mapMz (f : Rat → Rat) (t : Rat) (P Q : Pattern) (h : Q.peaks = P.peaks.map (mapMz f)) :
    (match Q.normalize with
      | none => (none : Option (List Peak))
      | some q => (Pattern.ignoreBelow q t).map Pattern.peaks) =
    (match P.normalize with
      | none => (none : Option (List Peak))
      | some q => (Pattern.ignoreBelow q t).map Pattern.peaks).map (List.map (mapMz f)) := by
  have hn := normalize_mapMz f P Q h
  cases hP : P.normalize with
  | none =>
    rw [hP] at hn
    cases hQ : Q.normalize with
    | none => rfl
    | some q => rw [hQ] at hn; simp at hn
  | some p =>
    rw [hP] at hn
    cases hQ : Q.normalize with
    | none => rw [hQ] at hn; simp at hn
    | some q =>
      rw [hQ] at hn
      simp only [Option.map_some, Option.some.injEq] at hn
      simp only [Option.map_map]
      exact ignoreBelow_mapMz f t p q hn

/-- **convolution generator**: the result at charge `z` is the result at charge 0 (neutral masses)
    with every `mz` converted for the charge and nothing else changed; `none` (a zero total) at one
    charge iff at every charge -/
theorem conv_charge_peaks (entries : List (Dist × Int)) (z : Int) (c t : Rat) :
    isotopicConvolution entries z c t = (isotopicConvolution entries 0 c t).map (List.map (rescale z c)) := by
  unfold isotopicConvolution
  refine convTail_mapMz (fun m => chargedMz m z c) t _ _ ?_
  simp [List.map_map, Function.comp_def, mapMz, chargedMz_zero]

/-- same intensities at every charge -/
theorem conv_charge (entries : List (Dist × Int)) (z : Int) (c t : Rat) :
    (isotopicConvolution entries z c t).map (·.map (·.int)) =
      (isotopicConvolution entries 0 c t).map (·.map (·.int)) := by
  rw [conv_charge_peaks entries z c t]
  simp [Option.map_map, Function.comp_def, List.map_map]

/-- every m/z is the neutral mass of the same peak converted for the charge -/
theorem conv_charge_mz (entries : List (Dist × Int)) (z : Int) (c t : Rat) :
    (isotopicConvolution entries z c t).map (·.map (·.mz)) =
      (isotopicConvolution entries 0 c t).map (·.map (fun p => chargedMz p.mz z c)) := by
  rw [conv_charge_peaks entries z c t]
  simp [Option.map_map, Function.comp_def, List.map_map]

/-- same number of peaks at every charge -/
theorem conv_charge_length (entries : List (Dist × Int)) (z : Int) (c t : Rat) :
    (isotopicConvolution entries z c t).map (·.length) = (isotopicConvolution entries 0 c t).map (·.length) := by
  rw [conv_charge_peaks entries z c t]
  simp [Option.map_map, Function.comp_def]

/-! ## Charge only rescales m/z: the coarse (BRAIN) generator -/

/-- map over the `ok` value of a result; `err` and `panic` are kept -/
def Res.mapOk {α β} (f : α → β) (r : Res α) : Res β := r.bind fun a => .ok (f a)

@[simp] theorem Res.mapOk_ok {α β} (f : α → β) (a : α) : (Res.ok a).mapOk f = .ok (f a) := rfl
@[simp] theorem Res.mapOk_err {α β} (f : α → β) : (Res.err : Res α).mapOk f = .err := rfl
@[simp] theorem Res.mapOk_panic {α β} (f : α → β) : (Res.panic : Res α).mapOk f = .panic := rfl

theorem Res.mapOk_id {α} (r : Res α) : r.mapOk id = r := by cases r <;> rfl

theorem Res.mapOk_bind {α β γ} (r : Res α) (k : α → Res β) (f : β → γ) :
    (r.bind k).mapOk f = r.bind fun a => (k a).mapOk f := by cases r <;> rfl

/-- the variants before the cut and the sort: same intensities, `mz` converted for the charge -/
theorem raw_charge (K : BrainConsts) (consts : IsoConstants) (comp : BComp) (order : Nat) (z : Int) (c : Rat) :
    rawVariants K consts comp order z c =
      (rawVariants K consts comp order 0 c).mapOk (List.map (rescale z c)) := by
  unfold rawVariants
  simp only [Res.mapOk_bind]
  congr 1; funext prob
  congr 1; funext cm
  simp [List.map_map, Function.comp_def, rescale, mapMz, chargedMz_zero]

/-- the cut loop looks at intensities only -/
theorem cutLoop_map (g : Peak → Peak) (hg : ∀ p, (g p).int = p.int) (cut : Rat) (l : List Peak) (b : Bool) :
    cutLoop cut (l.map g) b = (cutLoop cut l b).map g := by
  induction l generalizing b with
  | nil => rfl
  | cons p rest ih =>
    simp only [List.map_cons, cutLoop, hg]
    split
    · split
      · exact ih _
      · rw [List.map_cons, ih]
    · rw [List.map_cons, ih]

/-- a strictly increasing map reflects `<` on ℚ -/
theorem strictMono_lt_iff (f : Rat → Rat) (hf : ∀ a b, a < b → f a < f b) (a b : Rat) :
    f a < f b ↔ a < b := by
  constructor
  · intro h
    rcases lt_trichotomy a b with h1 | h1 | h1
    · exact h1
    · subst h1; exact absurd h (lt_irrefl _)
    · exact absurd h (lt_asymm (hf _ _ h1))
  · exact hf a b

theorem insertByMz_map_strictMono (f : Rat → Rat) (hf : ∀ a b, a < b → f a < f b) (x : Peak) (l : List Peak) :
    insertByMz (mapMz f x) (l.map (mapMz f)) = (insertByMz x l).map (mapMz f) := by
  induction l with
  | nil => rfl
  | cons y ys ih =>
    simp only [List.map_cons, insertByMz, mapMz_mz, strictMono_lt_iff f hf]
    split
    · rfl
    · rw [List.map_cons, ih]

theorem sortFold_map_strictMono (f : Rat → Rat) (hf : ∀ a b, a < b → f a < f b) (l acc : List Peak) :
    (l.map (mapMz f)).foldl (fun acc x => insertByMz x acc) (acc.map (mapMz f)) =
      (l.foldl (fun acc x => insertByMz x acc) acc).map (mapMz f) := by
  induction l generalizing acc with
  | nil => rfl
  | cons x xs ih =>
    simp only [List.map_cons, List.foldl_cons]
    rw [insertByMz_map_strictMono f hf, ih]

/-- sorting by m/z commutes with a strictly increasing change of the m/z values: both `<` tests of
    every insertion agree -/
theorem sortByMz_map_strictMono (f : Rat → Rat) (hf : ∀ a b, a < b → f a < f b) (l : List Peak) :
    sortByMz (l.map (mapMz f)) = (sortByMz l).map (mapMz f) := by
  unfold sortByMz
  exact sortFold_map_strictMono f hf l []

theorem sortByMz_rescale (z : Int) (c : Rat) (l : List Peak) :
    sortByMz (l.map (rescale z c)) = (sortByMz l).map (rescale z c) :=
  sortByMz_map_strictMono _ (fun a b h => chargedMz_strictMono c z a b h) l

/-- **BRAIN, populated constants**: the variants at charge `z` are the variants at charge 0 with
    every `mz` converted for the charge (same peaks kept by the cut, same order, same intensities);
    a panic at one charge iff at every charge -/
theorem brain_charge (K : BrainConsts) (consts : IsoConstants) (comp : BComp) (order : Nat) (z : Int) (c : Rat) :
    variantsWith K consts comp order z c =
      (variantsWith K consts comp order 0 c).mapOk (List.map (rescale z c)) := by
  unfold variantsWith
  rw [raw_charge K consts comp order z c]
  cases rawVariants K consts comp order 0 c with
  | ok peaks =>
    simp only [Res.mapOk_ok, Res.bind]
    rw [cutLoop_map _ (rescale_int z c), sortByMz_rescale]
  | err => rfl
  | panic => rfl

/-- **BRAIN, stateless entry point** -/
theorem brainVariants_charge (K : BrainConsts) (comp : BComp) (req : PeakReq) (z : Int) (c : Rat) :
    brainVariants K comp req z c = (brainVariants K comp req 0 c).mapOk (List.map (rescale z c)) := by
  unfold brainVariants
  simp only [Res.mapOk_bind]
  congr 1; funext consts
  exact brain_charge K consts comp _ z c

/-- **BRAIN, reusable generator**: the peaks are rescaled, the new cache does not depend on the charge -/
theorem generatorCall_charge (K : BrainConsts) (cache : Cache) (comp : BComp) (req : PeakReq) (z : Int) (c : Rat) :
    generatorCall K cache comp req z c =
      (generatorCall K cache comp req 0 c).mapOk (fun r => (r.1.map (rescale z c), r.2)) := by
  unfold generatorCall
  simp only [Res.mapOk_bind]
  congr 1; funext x
  obtain ⟨consts, cache'⟩ := x
  simp only
  rw [brain_charge K consts comp _ z c]
  cases variantsWith K consts comp (resolveOrder K comp req).toNat 0 c <;> rfl

/-- consequences in the shape of `poisson_charge`: intensities and m/z of the BRAIN peaks -/
theorem brainVariants_charge_int (K : BrainConsts) (comp : BComp) (req : PeakReq) (z : Int) (c : Rat) :
    (brainVariants K comp req z c).mapOk (List.map (·.int)) =
      (brainVariants K comp req 0 c).mapOk (List.map (·.int)) := by
  rw [brainVariants_charge K comp req z c]
  cases brainVariants K comp req 0 c <;> simp [List.map_map, Function.comp_def]

theorem brainVariants_charge_mz (K : BrainConsts) (comp : BComp) (req : PeakReq) (z : Int) (c : Rat) :
    (brainVariants K comp req z c).mapOk (List.map (·.mz)) =
      (brainVariants K comp req 0 c).mapOk (List.map (fun p => chargedMz p.mz z c)) := by
  rw [brainVariants_charge K comp req z c]
  cases brainVariants K comp req 0 c <;> simp [List.map_map, Function.comp_def]

/-- at charge 0 the statements are the identity -/
theorem brain_charge_zero (K : BrainConsts) (comp : BComp) (req : PeakReq) (c : Rat) :
    (brainVariants K comp req 0 c).mapOk (List.map (rescale 0 c)) = brainVariants K comp req 0 c := by
  rw [rescale_zero]; simp [Res.mapOk_id]

/-! ## non-vacuity for the two generators -/

namespace C10Demo

/-- a toy element: isotopes of mass 1 (abundance 3/4) and mass 2 (abundance 1/4), in units of 1/4 -/
def X : Elem :=
  { tkey := [88], sym := [88],
    isos := [{ key := 1, mass := 4, abund := 3, neutrons := 1, shift := 0 },
             { key := 2, mass := 8, abund := 1, neutrons := 2, shift := 1 }],
    mostIso := 1, mostMass := 4, minShift := 0, maxShift := 1, elemNum := 1 }

def K : BrainConsts :=
  { one := 4, lambdaFactor := 1800, maxIter := 255, guessCap := 300, guessFraction := 9999/10000,
    cut := 1/10000000000 }

def D : Dist := [(1, 3/4), (2, 1/4)]

-- BRAIN on X₂: neutral masses at charge 0, `(m + z)/|z|` at charges 2 and -2 (carrier mass 1),
-- the same three intensities every time
example : brainVariants K [(X, 2)] (.fixed 3) 0 1 = .ok [⟨2, 9/16⟩, ⟨3, 3/8⟩, ⟨4, 1/16⟩] := by decide +kernel
example : brainVariants K [(X, 2)] (.fixed 3) 2 1 = .ok [⟨2, 9/16⟩, ⟨5/2, 3/8⟩, ⟨3, 1/16⟩] := by decide +kernel
example : brainVariants K [(X, 2)] (.fixed 3) (-2) 1 = .ok [⟨0, 9/16⟩, ⟨1/2, 3/8⟩, ⟨1, 1/16⟩] := by
  decide +kernel
example : (generatorCall K [] [(X, 2)] (.fixed 3) (-2) 1).mapOk (·.1) =
    .ok [⟨0, 9/16⟩, ⟨1/2, 3/8⟩, ⟨1, 1/16⟩] := by decide +kernel
-- the right-hand side of `brainVariants_charge` evaluates to the same list
example : (brainVariants K [(X, 2)] (.fixed 3) 0 1).mapOk (List.map (rescale (-2) 1)) =
    .ok [⟨0, 9/16⟩, ⟨1/2, 3/8⟩, ⟨1, 1/16⟩] := by decide +kernel

-- convolution on D² with threshold 1/10 (the (4, 1/16) arrangement is pruned); `mergeSort` does not
-- reduce in the kernel, so the sort is evaluated by `norm_num` and the rest by `decide`
theorem demo_conv : convolveEntries (1/10) [(D, 2)] 0 [] = [(2, 9/16), (3, 3/16), (3, 3/16)] := by
  decide +kernel
theorem demo_sort : sortByMass [(2, 9/16), (3, 3/16), (3, 3/16)] = [(2, 9/16), (3, 3/16), (3, 3/16)] := by
  norm_num [sortByMass, List.mergeSort, List.MergeSort.Internal.splitInTwo, List.merge]

theorem demo_isoconv (z : Int) (c : Rat) : isotopicConvolution [(D, 2)] z c (1/10) =
    some [⟨chargedMz 2 z c, 3/5⟩, ⟨chargedMz 3 z c, 1/5⟩, ⟨chargedMz 3 z c, 1/5⟩] := by
  rw [conv_charge_peaks]
  unfold isotopicConvolution
  rw [demo_conv, demo_sort]
  have : ∀ x, x = some ([⟨2, 3/5⟩, ⟨3, 1/5⟩, ⟨3, 1/5⟩] : List Peak) →
      Option.map (List.map (rescale z c)) x =
        some [⟨chargedMz 2 z c, 3/5⟩, ⟨chargedMz 3 z c, 1/5⟩, ⟨chargedMz 3 z c, 1/5⟩] := by
    intro x hx; subst hx; rfl
  apply this
  simp only [chargedMz_zero]
  decide +kernel

example : isotopicConvolution [(D, 2)] 0 1 (1/10) = some [⟨2, 3/5⟩, ⟨3, 1/5⟩, ⟨3, 1/5⟩] := by
  rw [demo_isoconv]; decide +kernel
example : isotopicConvolution [(D, 2)] 2 1 (1/10) = some [⟨2, 3/5⟩, ⟨5/2, 1/5⟩, ⟨5/2, 1/5⟩] := by
  rw [demo_isoconv]; decide +kernel
example : isotopicConvolution [(D, 2)] (-2) 1 (1/10) = some [⟨0, 3/5⟩, ⟨1/2, 1/5⟩, ⟨1/2, 1/5⟩] := by
  rw [demo_isoconv]; decide +kernel

-- the sort really needs strict monotonicity: a decreasing relabelling does not commute
example : sortByMz ([⟨1, 0⟩, ⟨2, 0⟩].map (mapMz (fun m => -m))) ≠
    (sortByMz [⟨1, 0⟩, ⟨2, 0⟩]).map (mapMz (fun m => -m)) := by decide +kernel

end C10Demo

end Chem
