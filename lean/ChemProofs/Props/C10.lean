import Mathlib.Tactic.FieldSimp
import Mathlib.Tactic.Ring
import Mathlib.Tactic.Linarith
import Mathlib.Algebra.Order.Field.Rat
import ChemProofs.Model.Poisson
/-
C10 — charge only rescales m/z; charge 0 means neutral masses.
-/
namespace Chem

theorem natAbs_cast_pos (z : Int) (hz : z ≠ 0) : (0 : Rat) < ((z.natAbs : Nat) : Rat) := by
  have := Int.natAbs_pos.2 hz
  exact_mod_cast this

/-- `neutral_mass` inverts `mass_charge_ratio` for every non-zero charge of either sign -/
theorem neutral_inverts (m c : Rat) (z : Int) (hz : z ≠ 0) (x : Rat) (h : mzOf m z c = some x) :
    neutralOf x z c = m := by
  unfold mzOf at h
  simp only [hz, if_false] at h
  injection h with h
  subst h
  unfold neutralOf
  have := (natAbs_cast_pos z hz).ne'
  field_simp
  ring

/-- `mass_charge_ratio` is defined exactly for the non-zero charges -/
theorem mzOf_isSome (m c : Rat) (z : Int) : (mzOf m z c).isSome = true ↔ z ≠ 0 := by
  unfold mzOf; split <;> simp_all

/-- the guarded conversion of the generators: charge 0 returns the neutral mass itself … -/
theorem chargedMz_zero (m c : Rat) : chargedMz m 0 c = m := by simp [chargedMz]

/-- … and a non-zero charge gives `(m + z·carrier)/|z|`, i.e. `mass_charge_ratio` -/
theorem chargedMz_ne (m c : Rat) (z : Int) (hz : z ≠ 0) :
    chargedMz m z c = (m + (z : Rat) * c) / ((z.natAbs : Nat) : Rat) ∧ mzOf m z c = some (chargedMz m z c) := by
  simp [chargedMz, mzOf, hz]

/-- for `z ≠ 0` the rescaling is strictly increasing in the neutral mass, so sorting by m/z and
    rescaling commute (used for the coarse generator, which sorts after converting) -/
theorem chargedMz_strictMono (c : Rat) (z : Int) (m m' : Rat) (h : m < m') :
    chargedMz m z c < chargedMz m' z c := by
  by_cases hz : z = 0
  · simp [chargedMz, hz, h]
  · simp only [chargedMz, hz, if_false]
    have hp := natAbs_cast_pos z hz
    exact div_lt_div_of_pos_right (by linarith) hp

/-- **Poisson generator**: same number of peaks and the same intensities at every charge, and each
    m/z is the corresponding neutral mass converted for the charge; at charge 0 the m/z values are
    the neutral masses `mass + i·shift` themselves. -/
theorem poisson_charge (mass : Rat) (n : Nat) (z : Int) (lf ns pr : Rat) :
    (poisson mass n z lf ns pr).length = (poisson mass n 0 lf ns pr).length ∧
    (poisson mass n z lf ns pr).map (·.int) = (poisson mass n 0 lf ns pr).map (·.int) ∧
    (poisson mass n z lf ns pr).map (·.mz) = (poisson mass n 0 lf ns pr).map (fun p => chargedMz p.mz z pr) := by
  unfold poisson
  split
  · simp
  · simp [List.map_map, Function.comp_def, chargedMz_zero]

/-- non-vacuity -/
example : mzOf 1000 2 (1007276 / 1000000) = some ((1000 + 2 * (1007276 / 1000000)) / 2) := by
  simp [mzOf]
example : (poisson 1200 4 0 1800 1 1).map (·.mz) = [1200, 1201, 1202, 1203] := by decide +kernel

end Chem
