import ChemProofs.Props.C13
import ChemProofs.Model.Convolution
/-
C11 — the fine-structure convolution enumerates exactly the isotopologue arrangements.

Main results (all over exact rationals, all as *list equalities*, hence also `List.Perm`):
 * `convolveWith_eq`      : `convolveWith d e t = keep t (prod d e)` (tensor product, then threshold filter)
 * `prod_assoc`, `prod_unit_left/right`, `prod_comm` (Perm), `arrangementsOf_add`
 * `pow_spec` / `pow_exact`: repeated squaring computes `arrangementsOf d n` (filtered when `n ≥ 2`)
 * `conv_spec` / `conv_zero` / `prune_*` : the accumulation over entries computes `arrangements es`
 * `sortByMass_perm`, `sortByMass_sorted`
 * `isotopicConvolution_nil`, `isotopicConvolution_zero`
-/
namespace Chem

def NonNeg (d : Dist) : Prop := ∀ x ∈ d, 0 ≤ x.2
def Unit01 (d : Dist) : Prop := ∀ x ∈ d, 0 ≤ x.2 ∧ x.2 ≤ 1

/-- the "tensor product" of two distributions (outer loop over the second) -/
def prod (d e : Dist) : Dist := e.flatMap fun b => d.map fun a => (a.1 + b.1, a.2 * b.2)

/-- the threshold filter: keep the pairs whose abundance is at least `t` -/
def keep (t : Rat) (l : Dist) : Dist := l.filter fun x => decide (t ≤ x.2)

/-- the side condition under which pruning is harmless: non-negative abundances, and at most 1
    when the threshold is positive.  `Good 0 = NonNeg`, and `Unit01 d → Good t d`. -/
def Good (t : Rat) (d : Dist) : Prop := ∀ x ∈ d, 0 ≤ x.2 ∧ (0 < t → x.2 ≤ 1)

theorem Good.of_unit01 {t : Rat} {d : Dist} (h : Unit01 d) : Good t d :=
  fun x hx => ⟨(h x hx).1, fun _ => (h x hx).2⟩

theorem Good.of_nonneg {d : Dist} (h : NonNeg d) : Good 0 d :=
  fun x hx => ⟨h x hx, fun h0 => absurd h0 (lt_irrefl 0)⟩

theorem Good.nonneg {t : Rat} {d : Dist} (h : Good t d) : NonNeg d := fun x hx => (h x hx).1

/-! ### 1. `convolveWith` is the filtered tensor product -/

theorem prod_nil (d : Dist) : prod d [] = [] := rfl
theorem prod_cons (d : Dist) (b : Rat × Rat) (e : Dist) :
    prod d (b :: e) = d.map (fun a => (a.1 + b.1, a.2 * b.2)) ++ prod d e := by
  simp [prod]
theorem prod_append (d e₁ e₂ : Dist) : prod d (e₁ ++ e₂) = prod d e₁ ++ prod d e₂ := by
  simp [prod]

theorem keep_nil (t : Rat) : keep t [] = [] := rfl
theorem keep_append (t : Rat) (a b : Dist) : keep t (a ++ b) = keep t a ++ keep t b := by
  simp [keep]
theorem keep_keep (t : Rat) (a : Dist) : keep t (keep t a) = keep t a := by
  simp [keep, List.filter_filter]
theorem mem_keep {t : Rat} {a : Dist} {x : Rat × Rat} : x ∈ keep t a ↔ x ∈ a ∧ t ≤ x.2 := by
  simp [keep]
theorem keep_sublist (t : Rat) (a : Dist) : (keep t a).Sublist a := List.filter_sublist

theorem convolveWith_eq (d e : Dist) (t : Rat) : convolveWith d e t = keep t (prod d e) := by
  unfold convolveWith keep prod
  rw [List.filter_flatMap]
  congr 1
  funext b
  induction d with
  | nil => rfl
  | cons a d ih =>
    simp only [List.filterMap_cons, List.map_cons, List.filter_cons]
    by_cases h : a.2 * b.2 < t
    · have h' : ¬ t ≤ a.2 * b.2 := not_le.mpr h
      simp only [h, h', if_true, decide_false, ih]
      simp
    · have h' : t ≤ a.2 * b.2 := not_lt.mp h
      simp only [h, h', if_false, decide_true, ih]
      simp

theorem keep_of_nonneg {d : Dist} (h : NonNeg d) : keep 0 d = d := by
  unfold keep
  rw [List.filter_eq_self]
  intro x hx
  simpa using h x hx

theorem mem_prod {d e : Dist} {x : Rat × Rat} :
    x ∈ prod d e ↔ ∃ a ∈ d, ∃ b ∈ e, x = (a.1 + b.1, a.2 * b.2) := by
  simp only [prod, List.mem_flatMap, List.mem_map]
  constructor
  · rintro ⟨b, hb, a, ha, rfl⟩; exact ⟨a, ha, b, hb, rfl⟩
  · rintro ⟨a, ha, b, hb, rfl⟩; exact ⟨b, hb, a, ha, rfl⟩

theorem Good.prod {t : Rat} {d e : Dist} (hd : Good t d) (he : Good t e) : Good t (prod d e) := by
  intro x hx
  obtain ⟨a, ha, b, hb, rfl⟩ := mem_prod.mp hx
  obtain ⟨a0, a1⟩ := hd a ha
  obtain ⟨b0, b1⟩ := he b hb
  refine ⟨mul_nonneg a0 b0, fun ht => ?_⟩
  exact mul_le_one₀ (a1 ht) b0 (b1 ht)

theorem Good.keep {t : Rat} {d : Dist} (hd : Good t d) (s : Rat) : Good t (keep s d) :=
  fun x hx => hd x (mem_keep.mp hx).1

theorem NonNeg.prod {d e : Dist} (hd : NonNeg d) (he : NonNeg e) : NonNeg (prod d e) :=
  (Good.prod (Good.of_nonneg hd) (Good.of_nonneg he)).nonneg

/-- **threshold 0 never prunes** -/
theorem convolveWith_zero (d e : Dist) (hd : NonNeg d) (he : NonNeg e) :
    convolveWith d e 0 = e.flatMap (fun b => d.map (fun a => (a.1 + b.1, a.2 * b.2))) := by
  rw [convolveWith_eq, keep_of_nonneg (NonNeg.prod hd he)]; rfl

/-- the product of non-negative distributions is non-negative -/
theorem convolveWith_nonneg (d e : Dist) (t : Rat) (hd : NonNeg d) (he : NonNeg e) :
    NonNeg (convolveWith d e t) := by
  rw [convolveWith_eq]
  exact fun x hx => NonNeg.prod hd he x (mem_keep.mp hx).1

/-! ### 2. algebra of the tensor product -/

theorem prod_unit_right (d : Dist) : prod d [(0, 1)] = d := by
  simp [prod]

theorem prod_unit_left (d : Dist) : prod [(0, 1)] d = d := by
  induction d with
  | nil => rfl
  | cons b d ih => rw [prod_cons, ih]; simp

theorem map_prod (a b : Dist) (z : Rat × Rat) :
    (prod a b).map (fun x => (x.1 + z.1, x.2 * z.2)) = prod a (b.map fun x => (x.1 + z.1, x.2 * z.2)) := by
  induction b with
  | nil => rfl
  | cons y b ihb =>
    rw [prod_cons, List.map_append, ihb, List.map_cons, prod_cons]
    congr 1
    simp only [List.map_map]
    apply List.map_congr_left
    intro x _
    simp [add_assoc, mul_assoc]

/-- associativity holds as an equality of lists (same enumeration order) -/
theorem prod_assoc (a b c : Dist) : prod (prod a b) c = prod a (prod b c) := by
  induction c with
  | nil => rfl
  | cons z c ih => rw [prod_cons, prod_cons, prod_append, ih, map_prod]

theorem map_flatMap_cons_perm {α β : Type} (l : List α) (g : α → β) (h : α → List β) :
    (l.flatMap fun a => g a :: h a).Perm (l.map g ++ l.flatMap h) := by
  induction l with
  | nil => simp
  | cons a l ih =>
    simp only [List.flatMap_cons, List.map_cons, List.cons_append]
    refine List.Perm.cons _ ?_
    refine (List.Perm.append_left _ ih).trans ?_
    rw [← List.append_assoc, ← List.append_assoc]
    exact List.Perm.append_right _ List.perm_append_comm

/-- commutativity, up to a permutation -/
theorem prod_comm (d e : Dist) : (prod d e).Perm (prod e d) := by
  induction e with
  | nil => simp [prod]
  | cons b e ih =>
    rw [prod_cons]
    have h : prod (b :: e) d =
        d.flatMap fun a => (a.1 + b.1, a.2 * b.2) :: e.map (fun x => (x.1 + a.1, x.2 * a.2)) := by
      simp [prod, add_comm, mul_comm]
    rw [h]
    refine List.Perm.symm ((map_flatMap_cons_perm d _ _).trans ?_)
    exact List.Perm.append_left _ ih.symm

theorem prod_perm_left {d d' : Dist} (e : Dist) (hd : d.Perm d') : (prod d e).Perm (prod d' e) := by
  induction e with
  | nil => simp [prod]
  | cons b e ih => rw [prod_cons, prod_cons]; exact (hd.map _).append ih

theorem prod_perm {d d' e e' : Dist} (hd : d.Perm d') (he : e.Perm e') : (prod d e).Perm (prod d' e') :=
  (prod_perm_left e hd).trans
    ((prod_comm d' e).trans ((prod_perm_left d' he).trans (prod_comm e' d')))

theorem arrangementsOf_zero (d : Dist) : arrangementsOf d 0 = [(0, 1)] := rfl
theorem arrangementsOf_succ (d : Dist) (n : Nat) :
    arrangementsOf d (n + 1) = prod (arrangementsOf d n) d := rfl

theorem arrangementsOf_one (d : Dist) : arrangementsOf d 1 = d := by
  rw [arrangementsOf_succ, arrangementsOf_zero, prod_unit_left]

/-- `m + n` atoms: an arrangement of `m` atoms combined with an arrangement of `n` atoms
    (list equality; `Perm` follows) -/
theorem arrangementsOf_add (d : Dist) (m n : Nat) :
    arrangementsOf d (m + n) = prod (arrangementsOf d m) (arrangementsOf d n) := by
  induction n with
  | zero => rw [Nat.add_zero, arrangementsOf_zero, prod_unit_right]
  | succ n ih => rw [← Nat.add_assoc, arrangementsOf_succ, ih, prod_assoc, ← arrangementsOf_succ]

theorem arrangementsOf_add_perm (d : Dist) (m n : Nat) :
    (arrangementsOf d (m + n)).Perm (prod (arrangementsOf d m) (arrangementsOf d n)) :=
  (arrangementsOf_add d m n) ▸ List.Perm.refl _

theorem arrangements_nil : arrangements [] = [(0, 1)] := rfl
theorem arrangements_cons (d : Dist) (n : Nat) (rest : List (Dist × Nat)) :
    arrangements ((d, n) :: rest) = prod (arrangements rest) (arrangementsOf d n) := by
  simp [arrangements, prod, add_comm, mul_comm]

theorem arrangements_single (d : Dist) (n : Nat) : arrangements [(d, n)] = arrangementsOf d n := by
  rw [arrangements_cons, arrangements_nil, prod_unit_left]

theorem Good.arrangementsOf {t : Rat} {d : Dist} (hd : Good t d) (n : Nat) : Good t (arrangementsOf d n) := by
  induction n with
  | zero =>
    intro x hx
    simp only [arrangementsOf_zero, List.mem_singleton] at hx
    subst hx
    exact ⟨by decide, fun _ => by decide⟩
  | succ n ih => rw [arrangementsOf_succ]; exact ih.prod hd

theorem Good.arrangements {t : Rat} {es : List (Dist × Nat)} (h : ∀ e ∈ es, Good t e.1) :
    Good t (arrangements es) := by
  induction es with
  | nil =>
    intro x hx
    simp only [arrangements_nil, List.mem_singleton] at hx
    subst hx
    exact ⟨by decide, fun _ => by decide⟩
  | cons e es ih =>
    obtain ⟨d, n⟩ := e
    rw [arrangements_cons]
    exact (ih fun e he => h e (List.mem_cons_of_mem _ he)).prod ((h (d, n) (by simp)).arrangementsOf n)

/-! ### pruning lemmas: filtering a factor first does not change the filtered product -/

theorem keep_map_keep {t : Rat} {d : Dist} {b : Rat × Rat} (hd : Good t d)
    (hb1 : 0 < t → b.2 ≤ 1) :
    keep t ((keep t d).map fun a => (a.1 + b.1, a.2 * b.2)) = keep t (d.map fun a => (a.1 + b.1, a.2 * b.2)) := by
  induction d with
  | nil => rfl
  | cons a d ih =>
    have ihd := ih (fun x hx => hd x (List.mem_cons_of_mem _ hx))
    obtain ⟨a0, a1⟩ := hd a (by simp)
    by_cases h : t ≤ a.2
    · have : keep t (a :: d) = a :: keep t d := by simp [keep, h]
      rw [this, List.map_cons, List.map_cons]
      unfold keep at ihd ⊢
      simp only [List.filter_cons, ihd]
    · have hk : keep t (a :: d) = keep t d := by simp [keep, h]
      have hlt : ¬ t ≤ a.2 * b.2 := by
        rw [not_le] at h ⊢
        by_cases ht : 0 < t
        · exact lt_of_le_of_lt (mul_le_of_le_one_right a0 (hb1 ht)) h
        · exact absurd (lt_of_le_of_lt a0 h) ht
      rw [hk, ihd, List.map_cons]
      unfold keep
      simp [hlt]

theorem keep_prod_keep_left {t : Rat} {d e : Dist} (hd : Good t d) (he : Good t e) :
    keep t (prod (keep t d) e) = keep t (prod d e) := by
  induction e with
  | nil => rfl
  | cons b e ih =>
    obtain ⟨b0, b1⟩ := he b (by simp)
    rw [prod_cons, prod_cons, keep_append, keep_append, ih (fun x hx => he x (List.mem_cons_of_mem _ hx)),
      keep_map_keep hd b1]

theorem keep_prod_keep_right {t : Rat} {d e : Dist} (hd : Good t d) (he : Good t e) :
    keep t (prod d (keep t e)) = keep t (prod d e) := by
  induction e with
  | nil => rfl
  | cons b e ih =>
    have ihe := ih (fun x hx => he x (List.mem_cons_of_mem _ hx))
    obtain ⟨b0, b1⟩ := he b (by simp)
    by_cases h : t ≤ b.2
    · have : keep t (b :: e) = b :: keep t e := by simp [keep, h]
      rw [this, prod_cons, prod_cons, keep_append, keep_append, ihe]
    · have hk : keep t (b :: e) = keep t e := by simp [keep, h]
      have hnil : keep t (d.map fun a => (a.1 + b.1, a.2 * b.2)) = [] := by
        unfold keep
        rw [List.filter_eq_nil_iff]
        intro x hx
        obtain ⟨a, ha, rfl⟩ := List.mem_map.mp hx
        obtain ⟨a0, a1⟩ := hd a ha
        rw [not_le] at h
        have : a.2 * b.2 < t := by
          by_cases ht : 0 < t
          · exact lt_of_le_of_lt (mul_le_of_le_one_left b0 (a1 ht)) h
          · exact absurd (lt_of_le_of_lt b0 h) ht
        simpa using this
      rw [hk, ihe, prod_cons, keep_append, hnil, List.nil_append]

/-- `X` represents `A` either exactly or after thresholding -/
def Rep (t : Rat) (X A : Dist) : Prop := X = A ∨ X = keep t A

theorem Rep.keep_eq {t : Rat} {X A : Dist} (h : Rep t X A) : keep t X = keep t A := by
  rcases h with rfl | rfl
  · rfl
  · exact keep_keep t A

theorem Rep.good {t : Rat} {X A : Dist} (h : Rep t X A) (hA : Good t A) : Good t X := by
  rcases h with rfl | rfl
  · exact hA
  · exact hA.keep t

/-- the basic step: convolving two (possibly already pruned) representatives gives the pruned product -/
theorem convolveWith_rep {t : Rat} {X Y A B : Dist} (hA : Good t A) (hB : Good t B)
    (hX : Rep t X A) (hY : Rep t Y B) : convolveWith X Y t = keep t (prod A B) := by
  have gX := hX.good hA
  have gY := hY.good hB
  rw [convolveWith_eq, ← keep_prod_keep_left gX gY, ← keep_prod_keep_right (gX.keep t) gY,
    hX.keep_eq, hY.keep_eq, keep_prod_keep_right (hA.keep t) hB, keep_prod_keep_left hA hB]

/-! ### 3. repeated squaring -/

theorem Rep.refl (t : Rat) (A : Dist) : Rep t A A := Or.inl rfl
theorem Rep.kept (t : Rat) (A : Dist) : Rep t (keep t A) A := Or.inr rfl

/-- the squaring loop, entered with `buf = keep t (arr 2^j)` and `power = 2·2^j`, `2^j ≤ n`, leaves
    `keep t (arr 2^k)` and `power = 2·2^k` with `2^k ≤ n < 2^(k+1)`; `n + 1 ≤ 2^j + fuel` is enough fuel -/
theorem squareLoop_spec {t : Rat} {d : Dist} (hd : Good t d) (n : Nat) :
    ∀ (fuel j : Nat), 2 ^ j ≤ n → n + 1 ≤ 2 ^ j + fuel →
      ∃ k, j ≤ k ∧ 2 ^ k ≤ n ∧ n < 2 * 2 ^ k ∧
        squareLoop t (n : Int) fuel (keep t (arrangementsOf d (2 ^ j))) (2 * ((2 ^ j : Nat) : Int)) =
          (keep t (arrangementsOf d (2 ^ k)), 2 * ((2 ^ k : Nat) : Int)) := by
  intro fuel
  induction fuel with
  | zero => intro j h1 h2; omega
  | succ fuel ih =>
    intro j h1 h2
    unfold squareLoop
    by_cases hle : 2 * ((2 ^ j : Nat) : Int) ≤ (n : Int)
    · rw [if_pos hle]
      have hp : 2 ^ (j + 1) = 2 ^ j + 2 ^ j := by rw [Nat.pow_succ]; omega
      have hpos : 0 < 2 ^ j := Nat.pow_pos (by decide : 0 < 2)
      obtain ⟨k, hjk, hk1, hk2, hk3⟩ := ih (j + 1) (by omega) (by omega)
      refine ⟨k, by omega, hk1, hk2, ?_⟩
      have hA := hd.arrangementsOf (t := t) (2 ^ j)
      have hbuf : convolveWith (keep t (arrangementsOf d (2 ^ j))) (keep t (arrangementsOf d (2 ^ j))) t =
          keep t (arrangementsOf d (2 ^ (j + 1))) := by
        rw [convolveWith_rep hA hA (Rep.kept t _) (Rep.kept t _), hp, arrangementsOf_add]
      have hpow : 2 * ((2 ^ j : Nat) : Int) * 2 = 2 * ((2 ^ (j + 1) : Nat) : Int) := by
        rw [hp]; push_cast; omega
      rw [hbuf, hpow]
      exact hk3
    · rw [if_neg hle]
      exact ⟨j, Nat.le_refl _, h1, by omega, rfl⟩

/-- a negative count behaves like 1 -/
theorem convolvePow_neg (d : Dist) (t : Rat) (fuel : Nat) (n : Int) (hn : n < 0) :
    convolvePow d t (fuel + 1) n = d := by
  unfold convolvePow
  have h0 : (n == 0) = false := by simp; omega
  have h1 : (n == 1) = false := by simp; omega
  have h2 : n.toNat = 0 := by omega
  simp only [h0, h1, h2, Bool.false_eq_true, if_false]
  unfold squareLoop
  have h3 : ¬ (2 : Int) ≤ n := by omega
  simp only [h3, if_false]
  have h4 : ¬ (2 : Int) / 2 < n := by omega
  simp only [h4, if_false]

theorem convolvePow_zero (d : Dist) (t : Rat) (fuel : Nat) : convolvePow d t (fuel + 1) 0 = [(0, 1)] := by
  unfold convolvePow; simp

theorem convolvePow_one (d : Dist) (t : Rat) (fuel : Nat) : convolvePow d t (fuel + 1) 1 = d := by
  unfold convolvePow; simp

/-- **the power by repeated squaring is the arrangement list** (pruned at `t` when `n ≥ 2`;
    for `n ≤ 1` the code returns `[(0,1)]` / the distribution itself, unpruned) -/
theorem pow_spec {t : Rat} {d : Dist} (hd : Good t d) :
    ∀ (n fuel : Nat), n + 2 ≤ fuel →
      convolvePow d t fuel (n : Int) =
        if n ≤ 1 then arrangementsOf d n else keep t (arrangementsOf d n) := by
  intro n
  induction n using Nat.strong_induction_on with
  | _ n ih =>
    intro fuel hfuel
    obtain ⟨f, rfl⟩ : ∃ f, fuel = f + 1 := ⟨fuel - 1, by omega⟩
    by_cases hn0 : n = 0
    · subst hn0; simp [convolvePow_zero, arrangementsOf_zero]
    by_cases hn1 : n = 1
    · subst hn1; simp [convolvePow_one, arrangementsOf_one]
    have hn2 : 2 ≤ n := by omega
    rw [if_neg (by omega)]
    unfold convolvePow
    have h0 : ((n : Int) == 0) = false := by simp; omega
    have h1 : ((n : Int) == 1) = false := by simp; omega
    simp only [h0, h1, Bool.false_eq_true, if_false, Int.toNat_natCast]
    -- first iteration of the loop
    have hfirst : squareLoop t (n : Int) (n + 1) d 2 =
        squareLoop t (n : Int) n (keep t (arrangementsOf d (2 ^ 1))) (2 * ((2 ^ 1 : Nat) : Int)) := by
      conv => lhs; unfold squareLoop
      have : (2 : Int) ≤ (n : Int) := by omega
      rw [if_pos this]
      have hd1 : Rep t d (arrangementsOf d 1) := by rw [arrangementsOf_one]; exact Rep.refl t d
      have hA := hd.arrangementsOf (t := t) 1
      rw [convolveWith_rep hA hA hd1 hd1, ← arrangementsOf_add]
      rfl
    obtain ⟨k, hk0, hk1, hk2, hk3⟩ := squareLoop_spec hd n n 1 (by simpa using hn2) (by simp; omega)
    rw [hfirst, hk3]
    simp only
    have hdiv : 2 * ((2 ^ k : Nat) : Int) / 2 = ((2 ^ k : Nat) : Int) := by omega
    rw [hdiv]
    by_cases hlt : ((2 ^ k : Nat) : Int) < (n : Int)
    · rw [if_pos hlt]
      have hpos : 0 < 2 ^ k := Nat.pow_pos (by decide : 0 < 2)
      have hsub : (n : Int) - ((2 ^ k : Nat) : Int) = ((n - 2 ^ k : Nat) : Int) := by omega
      rw [hsub]
      have hm := ih (n - 2 ^ k) (by omega) f (by omega)
      have hrep : Rep t (convolvePow d t f ((n - 2 ^ k : Nat) : Int)) (arrangementsOf d (n - 2 ^ k)) := by
        rw [hm]
        split
        · exact Rep.refl t _
        · exact Rep.kept t _
      rw [convolveWith_rep (hd.arrangementsOf _) (hd.arrangementsOf _) (Rep.kept t _) hrep,
        ← arrangementsOf_add]
      congr 2
      omega
    · rw [if_neg hlt]
      have : 2 ^ k = n := by omega
      rw [this]

/-- **pow_exact** (threshold 0, non-negative abundances): list equality -/
theorem pow_exact_eq {d : Dist} (hd : NonNeg d) (n fuel : Nat) (hfuel : n + 2 ≤ fuel) :
    convolvePow d 0 fuel (n : Int) = arrangementsOf d n := by
  rw [pow_spec (Good.of_nonneg hd) n fuel hfuel]
  split
  · rfl
  · exact keep_of_nonneg ((Good.of_nonneg hd).arrangementsOf n).nonneg

theorem pow_exact {d : Dist} (hd : NonNeg d) (n fuel : Nat) (hfuel : n + 2 ≤ fuel) :
    (convolvePow d 0 fuel (n : Int)).Perm (arrangementsOf d n) :=
  (pow_exact_eq hd n fuel hfuel) ▸ List.Perm.refl _

/-! ### 4./5. the accumulation over the entries -/

/-- the entries as the code sees them (counts as `Int`) -/
def toEntries (es : List (Dist × Nat)) : List (Dist × Int) := es.map fun e => (e.1, (e.2 : Int))

theorem Rep.sublist {t : Rat} {X A : Dist} (h : Rep t X A) : X.Sublist A := by
  rcases h with rfl | rfl
  · exact List.Sublist.refl _
  · exact keep_sublist t A

theorem pow_rep {t : Rat} {d : Dist} (hd : Good t d) (n : Nat) :
    Rep t (convolvePow d t ((n : Int).toNat + 2) (n : Int)) (arrangementsOf d n) := by
  rw [Int.toNat_natCast, pow_spec hd n (n + 2) (Nat.le_refl _)]
  split
  · exact Rep.refl t _
  · exact Rep.kept t _

/-- after the first entry (`i ≠ 0`) every further entry is convolved in and pruned -/
theorem conv_acc {t : Rat} : ∀ (es : List (Dist × Nat)) (i : Nat) (out B : Dist), i ≠ 0 →
    (∀ e ∈ es, Good t e.1) → Good t B → Rep t out B →
    convolveEntries t (toEntries es) i out =
      if es = [] then out else keep t (prod (arrangements es) B) := by
  intro es
  induction es with
  | nil => intro i out B _ _ _ _; rfl
  | cons e rest ih =>
    intro i out B hi hes hB hout
    obtain ⟨d, n⟩ := e
    have hd : Good t d := hes (d, n) (by simp)
    have hrest : ∀ e ∈ rest, Good t e.1 := fun e he => hes e (List.mem_cons_of_mem _ he)
    have hi' : (i == 0) = false := by simp [hi]
    rw [if_neg (by simp)]
    simp only [toEntries, List.map_cons, convolveEntries, hi', Bool.false_eq_true, if_false]
    have hA := hd.arrangementsOf (t := t) n
    rw [convolveWith_rep hA hB (pow_rep hd n) hout]
    have := ih (i + 1) (keep t (prod (arrangementsOf d n) B)) (prod (arrangementsOf d n) B)
      (by omega) hrest (hA.prod hB) (Rep.kept t _)
    simp only [toEntries] at this
    rw [this, arrangements_cons, prod_assoc]
    split
    · next h => subst h; rw [arrangements_nil, prod_unit_left]
    · rfl

/-- one entry: the power itself -/
theorem conv_single {t : Rat} {d : Dist} (hd : Good t d) (n : Nat) :
    convolveEntries t (toEntries [(d, n)]) 0 [] =
      if n ≤ 1 then arrangements [(d, n)] else keep t (arrangements [(d, n)]) := by
  simp only [toEntries, List.map_cons, List.map_nil, convolveEntries, beq_self_eq_true, if_true]
  rw [Int.toNat_natCast, pow_spec hd n (n + 2) (Nat.le_refl _), arrangements_single]

/-- two or more entries: exactly the arrangements whose abundance reaches the threshold, in the
    enumeration order of `arrangements` -/
theorem conv_multi {t : Rat} {e : Dist × Nat} {rest : List (Dist × Nat)} (hne : rest ≠ [])
    (hes : ∀ x ∈ e :: rest, Good t x.1) :
    convolveEntries t (toEntries (e :: rest)) 0 [] = keep t (arrangements (e :: rest)) := by
  obtain ⟨d, n⟩ := e
  have hd : Good t d := hes (d, n) (by simp)
  have hrest : ∀ e ∈ rest, Good t e.1 := fun e he => hes e (List.mem_cons_of_mem _ he)
  simp only [toEntries, List.map_cons, convolveEntries, beq_self_eq_true, if_true]
  have := conv_acc rest (0 + 1) _ _ (by omega) hrest (hd.arrangementsOf n) (pow_rep hd n)
  simp only [toEntries] at this
  rw [this, if_neg hne, arrangements_cons]

/-- in every case the output is the arrangement list, either complete or pruned at `t` -/
theorem conv_rep {t : Rat} {es : List (Dist × Nat)} (hne : es ≠ []) (hes : ∀ x ∈ es, Good t x.1) :
    Rep t (convolveEntries t (toEntries es) 0 []) (arrangements es) := by
  cases es with
  | nil => exact absurd rfl hne
  | cons e rest =>
    by_cases hr : rest = []
    · subst hr
      obtain ⟨d, n⟩ := e
      rw [conv_single (hes (d, n) (by simp)) n]
      split
      · exact Rep.refl t _
      · exact Rep.kept t _
    · rw [conv_multi hr hes]; exact Rep.kept t _

/-- the degenerate case in which the code does not prune at all: a single entry with count ≤ 1 -/
def Degenerate (es : List (Dist × Nat)) : Prop := ∃ d n, es = [(d, n)] ∧ n ≤ 1

theorem conv_pruned {t : Rat} {es : List (Dist × Nat)} (hne : es ≠ []) (hes : ∀ x ∈ es, Good t x.1)
    (hnd : ¬ Degenerate es) :
    convolveEntries t (toEntries es) 0 [] = keep t (arrangements es) := by
  cases es with
  | nil => exact absurd rfl hne
  | cons e rest =>
    by_cases hr : rest = []
    · subst hr
      obtain ⟨d, n⟩ := e
      rw [conv_single (hes (d, n) (by simp)) n, if_neg]
      intro h; exact hnd ⟨d, n, rfl, h⟩
    · exact conv_multi hr hes

/-- **conv_zero**: with threshold 0 the accumulation is exactly the arrangement list (equality) -/
theorem conv_zero_eq {es : List (Dist × Nat)} (hne : es ≠ []) (hes : ∀ x ∈ es, NonNeg x.1) :
    convolveEntries 0 (es.map (fun e => (e.1, (e.2 : Int)))) 0 [] = arrangements es := by
  have hg : ∀ x ∈ es, Good 0 x.1 := fun x hx => Good.of_nonneg (hes x hx)
  rcases conv_rep hne hg with h | h
  · exact h
  · rw [keep_of_nonneg (Good.arrangements hg).nonneg] at h; exact h

theorem conv_zero {es : List (Dist × Nat)} (hne : es ≠ []) (hes : ∀ x ∈ es, NonNeg x.1) :
    (convolveEntries 0 (es.map (fun e => (e.1, (e.2 : Int)))) 0 []).Perm (arrangements es) :=
  (conv_zero_eq hne hes) ▸ List.Perm.refl _

/-- pruning never invents anything, and keeps multiplicities and order: the output is a sublist
    of the arrangement list -/
theorem prune_sublist {t : Rat} {es : List (Dist × Nat)} (hne : es ≠ []) (hes : ∀ x ∈ es, Unit01 x.1) :
    (convolveEntries t (es.map (fun e => (e.1, (e.2 : Int)))) 0 []).Sublist (arrangements es) :=
  (conv_rep hne fun x hx => Good.of_unit01 (hes x hx)).sublist

/-- **prune_sound**, membership half (holds always) -/
theorem prune_sound_mem {t : Rat} {es : List (Dist × Nat)} (hne : es ≠ []) (hes : ∀ x ∈ es, Unit01 x.1)
    (x : Rat × Rat) (hx : x ∈ convolveEntries t (es.map (fun e => (e.1, (e.2 : Int)))) 0 []) :
    x ∈ arrangements es :=
  (prune_sublist hne hes).subset hx

/-- **prune_sound**, threshold half: needs the entries not to be a single element with count ≤ 1,
    because in that case the code returns the isotope list (or `[(0,1)]`) without pruning
    (counterexample below); the final `ignore_below` of `isotopic_convolution` filters again. -/
theorem prune_sound_partial {t : Rat} {es : List (Dist × Nat)} (hne : es ≠ []) (hes : ∀ x ∈ es, Unit01 x.1)
    (hnd : ¬ Degenerate es)
    (x : Rat × Rat) (hx : x ∈ convolveEntries t (es.map (fun e => (e.1, (e.2 : Int)))) 0 []) :
    t ≤ x.2 ∧ x ∈ arrangements es := by
  have := conv_pruned hne (fun x hx => Good.of_unit01 (t := t) (hes x hx)) hnd
  simp only [toEntries] at this
  rw [this] at hx
  exact ⟨(mem_keep.mp hx).2, (mem_keep.mp hx).1⟩

/-- **prune_complete**: an arrangement that reaches the threshold is never lost on the way -/
theorem prune_complete {t : Rat} {es : List (Dist × Nat)} (hne : es ≠ []) (hes : ∀ x ∈ es, Unit01 x.1)
    (x : Rat × Rat) (hx : x ∈ arrangements es) (ht : t ≤ x.2) :
    x ∈ convolveEntries t (es.map (fun e => (e.1, (e.2 : Int)))) 0 [] := by
  have h := (conv_rep hne fun x hx => Good.of_unit01 (t := t) (hes x hx)).keep_eq
  have : x ∈ keep t (arrangements es) := mem_keep.mpr ⟨hx, ht⟩
  rw [← h] at this
  exact (mem_keep.mp this).1

/-- with multiplicities (always): the qualifying part of the output is the qualifying part of the
    arrangement list -/
theorem prune_filter {t : Rat} {es : List (Dist × Nat)} (hne : es ≠ []) (hes : ∀ x ∈ es, Unit01 x.1) :
    (convolveEntries t (es.map (fun e => (e.1, (e.2 : Int)))) 0 []).filter (fun x => decide (t ≤ x.2)) =
      (arrangements es).filter (fun x => decide (t ≤ x.2)) :=
  (conv_rep hne fun x hx => Good.of_unit01 (t := t) (hes x hx)).keep_eq

/-- with multiplicities, outside the degenerate case: the output *is* the filtered arrangement list -/
theorem prune_perm_partial {t : Rat} {es : List (Dist × Nat)} (hne : es ≠ []) (hes : ∀ x ∈ es, Unit01 x.1)
    (hnd : ¬ Degenerate es) :
    (convolveEntries t (es.map (fun e => (e.1, (e.2 : Int)))) 0 []).Perm
      ((arrangements es).filter (fun x => decide (t ≤ x.2))) := by
  have := conv_pruned hne (fun x hx => Good.of_unit01 (t := t) (hes x hx)) hnd
  simp only [toEntries] at this
  rw [this]; exact List.Perm.refl _

/-! ### 6. the sort -/

theorem sortByMass_perm (l : Dist) : (sortByMass l).Perm l := List.mergeSort_perm _ _

theorem sortByMass_sorted (l : Dist) : (sortByMass l).Pairwise (fun a b => a.1 ≤ b.1) := by
  have h := List.pairwise_mergeSort (le := fun (a b : Rat × Rat) => decide (a.1 ≤ b.1))
    (fun a b c hab hbc => by
      simp only [decide_eq_true_eq] at hab hbc ⊢
      exact le_trans hab hbc)
    (fun a b => by
      simp only [Bool.or_eq_true, decide_eq_true_eq]
      exact le_total a.1 b.1) l
  exact h.imp (fun hab => by simpa using hab)

/-! ### 7. the whole function -/

/-- empty composition: the empty list, no failure -/
theorem isotopicConvolution_nil (z : Int) (c t : Rat) : isotopicConvolution [] z c t = some [] := by
  simp [isotopicConvolution, convolveEntries, sortByMass, Pattern.normalize, Pattern.ignoreBelow]

/-- total abundance of a distribution -/
def mass (d : Dist) : Rat := (d.map (·.2)).sum

theorem mass_append (a b : Dist) : mass (a ++ b) = mass a + mass b := by simp [mass]

theorem mass_map_op (d : Dist) (b : Rat × Rat) :
    mass (d.map fun a => (a.1 + b.1, a.2 * b.2)) = mass d * b.2 := by
  induction d with
  | nil => simp [mass]
  | cons a d ih =>
    simp only [mass, List.map_cons, List.sum_cons] at ih ⊢
    rw [ih]; ring

theorem mass_prod (d e : Dist) : mass (prod d e) = mass d * mass e := by
  induction e with
  | nil => simp [mass, prod]
  | cons b e ih =>
    rw [prod_cons, mass_append, ih, mass_map_op]
    simp only [mass, List.map_cons, List.sum_cons]
    ring

theorem mass_arrangementsOf (d : Dist) (n : Nat) : mass (arrangementsOf d n) = mass d ^ n := by
  induction n with
  | zero => simp [mass, arrangementsOf]
  | succ n ih => rw [arrangementsOf_succ, mass_prod, ih, pow_succ]

/-- the total probability of the arrangement list is the product of the per-element totals -/
theorem mass_arrangements (es : List (Dist × Nat)) :
    mass (arrangements es) = (es.map fun e => mass e.1 ^ e.2).prod := by
  induction es with
  | nil => simp [mass, arrangements]
  | cons e es ih =>
    obtain ⟨d, n⟩ := e
    rw [arrangements_cons, mass_prod, ih, mass_arrangementsOf, List.map_cons, List.prod_cons, mul_comm]

theorem mass_arrangements_pos {es : List (Dist × Nat)} (h : ∀ e ∈ es, 0 < mass e.1) :
    0 < mass (arrangements es) := by
  rw [mass_arrangements]
  induction es with
  | nil => simp
  | cons e es ih =>
    rw [List.map_cons, List.prod_cons]
    exact mul_pos (pow_pos (h e (by simp)) _) (ih fun x hx => h x (List.mem_cons_of_mem _ hx))

theorem mass_perm {a b : Dist} (h : a.Perm b) : mass a = mass b := (h.map _).sum_eq

/-- the charge step is monotone in the mass -/
theorem chargedMz_mono (z : Int) (c : Rat) {m m' : Rat} (h : m ≤ m') :
    chargedMz m z c ≤ chargedMz m' z c := by
  unfold chargedMz
  split
  · exact h
  · exact div_le_div_of_nonneg_right (by linarith) (Nat.cast_nonneg _)

/-- the peak list the function produces at threshold 0 -/
def zeroPeaks (es : List (Dist × Nat)) (z : Int) (c : Rat) : List Peak :=
  (sortByMass (arrangements es)).map fun x =>
    { mz := chargedMz x.1 z c, int := x.2 / mass (arrangements es) }

theorem total_map_peak (l : Dist) (f : Rat → Rat) (k : Rat) :
    total (l.map fun x => ({ mz := f x.1, int := x.2 * k } : Peak)) = mass l * k := by
  induction l with
  | nil => simp [total, intensities, mass]
  | cons a l ih =>
    rw [List.map_cons, total_cons, ih]
    simp only [mass, List.map_cons, List.sum_cons]
    ring

/-- **the whole function at threshold 0**, for a non-empty composition of non-negative isotope
    distributions with positive total probability: the result is the mass-sorted arrangement list,
    charge-converted, with abundances divided by their sum. -/
theorem isotopicConvolution_zero_eq {es : List (Dist × Nat)} (hne : es ≠ []) (hes : ∀ x ∈ es, NonNeg x.1)
    (hpos : 0 < mass (arrangements es)) (z : Int) (c : Rat) :
    isotopicConvolution (es.map (fun e => (e.1, (e.2 : Int)))) z c 0 = some (zeroPeaks es z c) := by
  have hS := hpos.ne'
  have hA : NonNeg (arrangements es) :=
    (Good.arrangements fun x hx => Good.of_nonneg (hes x hx)).nonneg
  have hsortmass : mass (sortByMass (arrangements es)) = mass (arrangements es) :=
    mass_perm (sortByMass_perm _)
  have hsortne : sortByMass (arrangements es) ≠ [] := by
    intro h
    rw [h] at hsortmass
    exact hS (by rw [← hsortmass]; rfl)
  unfold isotopicConvolution
  rw [conv_zero_eq hne hes]
  simp only
  -- the un-normalised peaks
  have hp0 : (List.map (fun x : Rat × Rat => match x with
        | (m, a) => ({ mz := chargedMz m z c, int := a } : Peak)) (sortByMass (arrangements es))) =
      (sortByMass (arrangements es)).map fun x => ({ mz := chargedMz x.1 z c, int := x.2 * 1 } : Peak) := by
    apply List.map_congr_left
    intro x _
    simp
  rw [hp0]
  generalize hout : sortByMass (arrangements es) = out at *
  set peaks0 : List Peak := out.map fun x => ({ mz := chargedMz x.1 z c, int := x.2 * 1 } : Peak) with hpk
  have ht0 : total peaks0 = mass (arrangements es) := by
    rw [hpk, total_map_peak out (fun m => chargedMz m z c) 1, hsortmass, mul_one]
  have hne0 : peaks0 ≠ [] := by
    rw [hpk]; intro h; exact hsortne (List.map_eq_nil_iff.mp h)
  rw [normalize_some _ hne0 (by rw [ht0]; exact hS)]
  simp only [Pattern.ignoreBelow, Pattern.scaleBy, ht0]
  -- the second filter keeps everything
  have hmem : ∀ x ∈ out, x ∈ arrangements es := by
    intro x hx
    rw [← hout] at hx
    exact (sortByMass_perm _).subset hx
  have hfilter : (peaks0.map fun q => ({ q with int := q.int * (1 / mass (arrangements es)) } : Peak)).filter
      (fun q => decide (0 ≤ q.int)) =
      out.map fun x => ({ mz := chargedMz x.1 z c, int := x.2 * (1 / mass (arrangements es)) } : Peak) := by
    rw [hpk, List.map_map]
    rw [List.filter_eq_self.mpr]
    · apply List.map_congr_left; intro x _; simp
    · intro q hq
      obtain ⟨x, hx, rfl⟩ := List.mem_map.mp hq
      have := hA x (hmem x hx)
      simp only [Function.comp, decide_eq_true_eq]
      exact mul_nonneg (by simpa using this) (by rw [one_div]; exact inv_nonneg.mpr hpos.le)
  rw [hfilter]
  set peaks1 : List Peak :=
    out.map fun x => ({ mz := chargedMz x.1 z c, int := x.2 * (1 / mass (arrangements es)) } : Peak) with hpk1
  have ht1 : total peaks1 = 1 := by
    rw [hpk1, total_map_peak out (fun m => chargedMz m z c), hsortmass]
    field_simp
  have hne1 : peaks1 ≠ [] := by
    rw [hpk1]; intro h; exact hsortne (List.map_eq_nil_iff.mp h)
  rw [normalize_some _ hne1 (by simp only [ht1]; exact one_ne_zero)]
  simp only [Pattern.scaleBy, ht1, Option.map_some, Option.some.injEq]
  rw [hpk1, List.map_map, zeroPeaks, hout]
  apply List.map_congr_left
  intro x _
  simp [div_eq_mul_inv]

/-- consequences in the form of the property: total 1, sorted by m/z (for every charge, including 0),
    and the peaks are a permutation of the charge-converted, renormalised arrangement list -/
theorem isotopicConvolution_zero {es : List (Dist × Nat)} (hne : es ≠ []) (hes : ∀ x ∈ es, NonNeg x.1)
    (hpos : 0 < mass (arrangements es)) (z : Int) (c : Rat) :
    ∃ peaks, isotopicConvolution (es.map (fun e => (e.1, (e.2 : Int)))) z c 0 = some peaks ∧
      total peaks = 1 ∧
      peaks.Pairwise (fun p q => p.mz ≤ q.mz) ∧
      peaks.Perm ((arrangements es).map fun x =>
        ({ mz := chargedMz x.1 z c, int := x.2 / mass (arrangements es) } : Peak)) ∧
      (peaks.map (·.int)).Perm ((arrangements es).map fun x => x.2 / mass (arrangements es)) := by
  refine ⟨zeroPeaks es z c, isotopicConvolution_zero_eq hne hes hpos z c, ?_, ?_, ?_, ?_⟩
  · have := total_map_peak (sortByMass (arrangements es)) (fun m => chargedMz m z c)
      (1 / mass (arrangements es))
    simp only [← div_eq_mul_one_div] at this
    rw [zeroPeaks, this, mass_perm (sortByMass_perm _)]
    exact div_self hpos.ne'
  · rw [zeroPeaks, List.pairwise_map]
    exact (sortByMass_sorted _).imp fun h => chargedMz_mono z c h
  · exact (sortByMass_perm _).map _
  · have := ((sortByMass_perm (arrangements es)).map fun x =>
      ({ mz := chargedMz x.1 z c, int := x.2 / mass (arrangements es) } : Peak)).map (·.int)
    simpa [zeroPeaks, List.map_map, Function.comp_def] using this

/-- the same with the positivity of the total derived from the isotope distributions -/
theorem isotopicConvolution_zero' {es : List (Dist × Nat)} (hne : es ≠ []) (hes : ∀ x ∈ es, NonNeg x.1)
    (hpos : ∀ e ∈ es, 0 < mass e.1) (z : Int) (c : Rat) :
    ∃ peaks, isotopicConvolution (es.map (fun e => (e.1, (e.2 : Int)))) z c 0 = some peaks ∧
      total peaks = 1 ∧ peaks.Pairwise (fun p q => p.mz ≤ q.mz) ∧
      (peaks.map (·.int)).Perm ((arrangements es).map fun x => x.2 / mass (arrangements es)) := by
  obtain ⟨peaks, h1, h2, h3, _, h5⟩ := isotopicConvolution_zero hne hes (mass_arrangements_pos hpos) z c
  exact ⟨peaks, h1, h2, h3, h5⟩

/-! ### 8. non-vacuity -/

def demoD : Dist := [(1, 3/4), (2, 1/4)]
def demoE : Dist := [(10, 1/2), (11, 1/2)]

example : NonNeg demoD ∧ Unit01 demoD ∧ Unit01 demoE := by
  simp only [NonNeg, Unit01, demoD, demoE]; decide +kernel

-- threshold 0: the power is the arrangement list, verbatim (8 and 32 arrangements)
example : convolvePow demoD 0 5 3 = arrangementsOf demoD 3 := by decide +kernel
example : convolvePow demoD 0 7 5 = arrangementsOf demoD 5 := by decide +kernel
example : (arrangementsOf demoD 3).length = 8 ∧ (arrangementsOf demoD 5).length = 32 := by decide +kernel
example : arrangementsOf demoD 2 = [(2, 9/16), (3, 3/16), (3, 3/16), (4, 1/16)] := by decide +kernel

-- a positive threshold prunes exactly the arrangements below it
example : convolvePow demoD (1/10) 5 3 = (arrangementsOf demoD 3).filter (fun x => decide (1/10 ≤ x.2)) := by
  decide +kernel
example : (convolvePow demoD (1/10) 5 3).length = 4 := by decide +kernel

-- two entries
example : convolveEntries (1/10) [(demoD, 3), (demoE, 2)] 0 [] =
    (arrangements [(demoD, 3), (demoE, 2)]).filter (fun x => decide (1/10 ≤ x.2)) := by decide +kernel
example : (convolveEntries (1/10) [(demoD, 3), (demoE, 2)] 0 []).length = 4 ∧
    (arrangements [(demoD, 3), (demoE, 2)]).length = 32 := by decide +kernel

-- the degenerate case: a single entry with count 1 is returned unpruned, so `(2, 1/4)` survives a
-- threshold of 1/2 (this is why `prune_sound_partial` excludes it)
example : (2, 1/4) ∈ convolveEntries (1/2) [(demoD, 1)] 0 [] := by decide +kernel

-- negative count behaves like 1
example : convolvePow demoD 0 3 (-4) = demoD := by decide +kernel

-- the whole function on a concrete input (threshold 0, charge 1, carrier mass 0): hypotheses of
-- `isotopicConvolution_zero_eq` are satisfiable and its conclusion evaluates to the expected peaks
theorem demo_sort : sortByMass [(2, 9/16), (3, 3/16), (3, 3/16), (4, 1/16)] =
    [(2, 9/16), (3, 3/16), (3, 3/16), (4, 1/16)] := by
  norm_num [sortByMass, List.mergeSort, List.MergeSort.Internal.splitInTwo, List.merge]

example : isotopicConvolution [(demoD, 2)] 1 0 0 =
    some [⟨2, 9/16⟩, ⟨3, 3/16⟩, ⟨3, 3/16⟩, ⟨4, 1/16⟩] := by
  have h := isotopicConvolution_zero_eq (es := [(demoD, 2)]) (by simp)
    (by simp only [NonNeg, demoD]; decide +kernel) (by simp only [mass, demoD]; decide +kernel) 1 0
  have ha : arrangements [(demoD, 2)] = [(2, 9/16), (3, 3/16), (3, 3/16), (4, 1/16)] := by decide +kernel
  have hm : mass [(2, 9/16), (3, 3/16), (3, 3/16), (4, 1/16)] = 1 := by decide +kernel
  rw [zeroPeaks, ha, demo_sort, hm] at h
  refine Eq.trans h ?_
  decide +kernel

example : ∃ peaks, isotopicConvolution [(demoD, 3), (demoE, 2)] (-2) 1 0 = some peaks ∧ total peaks = 1 ∧
    peaks.Pairwise (fun p q => p.mz ≤ q.mz) := by
  obtain ⟨p, h1, h2, h3, _⟩ := isotopicConvolution_zero' (es := [(demoD, 3), (demoE, 2)]) (by simp)
    (by simp only [NonNeg, demoD, demoE]; decide +kernel)
    (by simp only [mass, demoD, demoE]; decide +kernel) (-2) 1
  exact ⟨p, h1, h2, h3⟩

end Chem
