import ChemProofs.Model.Convolution
namespace Chem
theorem placeholder_C11 : True := trivial
end Chem
