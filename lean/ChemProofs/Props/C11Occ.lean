import ChemProofs.Props.C11
import Mathlib.Data.Nat.Choose.Basic
import Mathlib.Data.List.Perm.Basic
/-
C11 (occupancy form) — the ordered arrangements of `n` atoms of a two-isotope element are, as a
multiset (`List.Perm`), the occupancies `k = 0..n` with binomial multiplicities `Nat.choose n k`.
This ties the pruned python oracle of the C11 check (which walks occupancies) to `arrangementsOf`.
-/
namespace Chem

/-- the binomial walk: entry `F k` with multiplicity `Nat.choose n k`, `k = 0..n` -/
def binomWalk {α : Type} (F : Nat → α) (n : Nat) : List α :=
  (List.range (n + 1)).flatMap fun k => List.replicate (Nat.choose n k) (F k)

/-- Pascal's rule at the level of lists -/
theorem binomWalk_succ_perm {α : Type} (F : Nat → α) (n : Nat) :
    (binomWalk F (n + 1)).Perm (binomWalk F n ++ binomWalk (fun k => F (k + 1)) n) := by
  unfold binomWalk
  -- the walk with `choose n k` over `range (n+2)` is the walk over `range (n+1)` (last term is empty)
  have hA : (List.range (n + 1 + 1)).flatMap (fun k => List.replicate (Nat.choose n k) (F k))
      = (List.range (n + 1)).flatMap (fun k => List.replicate (Nat.choose n k) (F k)) := by
    rw [List.range_succ (n := n + 1), List.flatMap_append]
    simp [Nat.choose_succ_self]
  have hA' : (List.range (n + 1 + 1)).flatMap (fun k => List.replicate (Nat.choose n k) (F k))
      = [F 0] ++ (List.range (n + 1)).flatMap
          (fun k => List.replicate (Nat.choose n (k + 1)) (F (k + 1))) := by
    rw [List.range_succ_eq_map (n := n + 1), List.flatMap_cons, List.flatMap_map]
    simp
  have hL : (List.range (n + 1 + 1)).flatMap
        (fun k => List.replicate (Nat.choose (n + 1) k) (F k))
      = [F 0] ++ (List.range (n + 1)).flatMap (fun k =>
          List.replicate (Nat.choose n k) (F (k + 1)) ++
          List.replicate (Nat.choose n (k + 1)) (F (k + 1))) := by
    rw [List.range_succ_eq_map (n := n + 1), List.flatMap_cons, List.flatMap_map]
    simp [Nat.choose_succ_succ, List.replicate_add, - List.replicate_append_replicate]
  rw [hL, ← hA, hA']
  refine ((List.flatMap_append_perm _ _ _).symm.cons _).trans ?_
  simp only [List.cons_append]
  refine List.Perm.cons _ ?_
  exact List.perm_append_comm

theorem binomWalk_map {α β : Type} (g : α → β) (F : Nat → α) (n : Nat) :
    (binomWalk F n).map g = binomWalk (fun k => g (F k)) n := by
  simp [binomWalk, List.map_flatMap]

theorem binomWalk_congr {α : Type} {F G : Nat → α} (n : Nat) (h : ∀ k, k ≤ n → F k = G k) :
    binomWalk F n = binomWalk G n := by
  unfold binomWalk
  refine List.flatMap_congr ?_
  intro k hk
  rw [h k (Nat.lt_succ_iff.mp (List.mem_range.mp hk))]

/-- the occupancy pair: `k` atoms on the second isotope, `n - k` on the first -/
def occPair (m₁ p₁ m₂ p₂ : Rat) (n k : Nat) : Rat × Rat :=
  ((k : Rat) * m₂ + ((n - k : Nat) : Rat) * m₁, p₂ ^ k * p₁ ^ (n - k))

/-- **Item 1** (`List.Perm` = equality as multisets).  For a two-isotope element the ordered
    arrangements are the occupancies with binomial multiplicities. -/
theorem arrangementsOf_two_perm (m₁ p₁ m₂ p₂ : Rat) (n : Nat) :
    (arrangementsOf [(m₁, p₁), (m₂, p₂)] n).Perm
      ((List.range (n + 1)).flatMap fun k =>
        List.replicate (Nat.choose n k)
          ((k : Rat) * m₂ + ((n - k : Nat) : Rat) * m₁, p₂ ^ k * p₁ ^ (n - k))) := by
  change (arrangementsOf [(m₁, p₁), (m₂, p₂)] n).Perm (binomWalk (occPair m₁ p₁ m₂ p₂ n) n)
  induction n with
  | zero => simp [arrangementsOf, binomWalk, occPair]
  | succ n ih =>
    rw [arrangementsOf_succ, prod_cons, prod_cons, prod_nil, List.append_nil]
    refine ((ih.map _).append (ih.map _)).trans ?_
    rw [binomWalk_map, binomWalk_map]
    refine List.Perm.trans ?_ (binomWalk_succ_perm _ n).symm
    have h1 : binomWalk (fun k => ((occPair m₁ p₁ m₂ p₂ n k).1 + (m₁, p₁).1,
          (occPair m₁ p₁ m₂ p₂ n k).2 * (m₁, p₁).2)) n
        = binomWalk (occPair m₁ p₁ m₂ p₂ (n + 1)) n := by
      refine binomWalk_congr n ?_
      intro k hk
      have e : n + 1 - k = (n - k) + 1 := by omega
      simp only [occPair, e, pow_succ, Nat.cast_add, Nat.cast_one]
      refine Prod.ext ?_ ?_ <;> simp only <;> ring
    have h2 : binomWalk (fun k => ((occPair m₁ p₁ m₂ p₂ n k).1 + (m₂, p₂).1,
          (occPair m₁ p₁ m₂ p₂ n k).2 * (m₂, p₂).2)) n
        = binomWalk (fun k => occPair m₁ p₁ m₂ p₂ (n + 1) (k + 1)) n := by
      refine binomWalk_congr n ?_
      intro k _
      have e : n + 1 - (k + 1) = n - k := by omega
      simp only [occPair, e, pow_succ, Nat.cast_add, Nat.cast_one]
      refine Prod.ext ?_ ?_ <;> simp only <;> ring
    rw [h1, h2]

/-- **Item 2.**  For every threshold `t`, the arrangements with probability `≥ t` are, as a
    multiset, the occupancies `k` with `t ≤ p₂^k p₁^(n-k)`, each `Nat.choose n k` times. -/
theorem arrangementsOf_two_filter (m₁ p₁ m₂ p₂ t : Rat) (n : Nat) :
    (keep t (arrangementsOf [(m₁, p₁), (m₂, p₂)] n)).Perm
      ((List.range (n + 1)).flatMap fun k =>
        if t ≤ p₂ ^ k * p₁ ^ (n - k) then
          List.replicate (Nat.choose n k)
            ((k : Rat) * m₂ + ((n - k : Nat) : Rat) * m₁, p₂ ^ k * p₁ ^ (n - k))
        else []) := by
  have h := (arrangementsOf_two_perm m₁ p₁ m₂ p₂ n).filter (fun x => decide (t ≤ x.2))
  unfold keep
  refine h.trans (List.Perm.of_eq ?_)
  rw [List.filter_flatMap]
  refine List.flatMap_congr ?_
  intro k _
  rw [List.filter_replicate]
  simp

/-- the same, with the occupancies filtered first -/
theorem arrangementsOf_two_filter' (m₁ p₁ m₂ p₂ t : Rat) (n : Nat) :
    (keep t (arrangementsOf [(m₁, p₁), (m₂, p₂)] n)).Perm
      (((List.range (n + 1)).filter fun k => decide (t ≤ p₂ ^ k * p₁ ^ (n - k))).flatMap fun k =>
        List.replicate (Nat.choose n k)
          ((k : Rat) * m₂ + ((n - k : Nat) : Rat) * m₁, p₂ ^ k * p₁ ^ (n - k))) := by
  refine (arrangementsOf_two_filter m₁ p₁ m₂ p₂ t n).trans (List.Perm.of_eq ?_)
  generalize List.range (n + 1) = l
  induction l with
  | nil => rfl
  | cons a l ih =>
    rw [List.flatMap_cons, ih, List.filter_cons]
    by_cases h : t ≤ p₂ ^ a * p₁ ^ (n - a) <;> simp [h]

/-- `mass` of the binomial walk -/
theorem mass_binomWalk (F : Nat → Rat × Rat) (n : Nat) :
    mass (binomWalk F n)
      = ((List.range (n + 1)).map fun k => (Nat.choose n k : Rat) * (F k).2).sum := by
  unfold binomWalk
  generalize List.range (n + 1) = l
  induction l with
  | nil => simp [mass]
  | cons a l ih =>
    rw [List.flatMap_cons, mass_append, ih, List.map_cons, List.sum_cons]
    congr 1
    generalize Nat.choose n a = c
    induction c with
    | zero => simp [mass]
    | succ c ihc =>
      rw [List.replicate_succ]
      simp only [mass, List.map_cons, List.sum_cons] at ihc ⊢
      rw [ihc]; push_cast; ring

/-- **Item 3.**  The binomial identity implied by `mass_arrangementsOf` and item 1. -/
theorem binomial_identity (p₁ p₂ : Rat) (n : Nat) :
    ((List.range (n + 1)).map fun k => (Nat.choose n k : Rat) * (p₂ ^ k * p₁ ^ (n - k))).sum
      = (p₁ + p₂) ^ n := by
  have h := mass_perm (arrangementsOf_two_perm 0 p₁ 0 p₂ n)
  rw [mass_arrangementsOf] at h
  change _ = mass (binomWalk (occPair 0 p₁ 0 p₂ n) n) at h
  rw [mass_binomWalk] at h
  simp only [occPair] at h
  rw [← h]
  simp [mass]

/-! ### Item 4 (general isotope list): peel off the first isotope — the multinomial recursion -/

/-- `j` further atoms on isotope `i` -/
def shiftBy (i : Rat × Rat) (j : Nat) (a : Rat × Rat) : Rat × Rat :=
  (a.1 + (j : Rat) * i.1, a.2 * i.2 ^ j)

theorem prod_flatten_perm (L : List Dist) (e : Dist) :
    (prod L.flatten e).Perm (L.map fun d => prod d e).flatten := by
  refine (prod_comm _ _).trans ?_
  induction L with
  | nil => simp [prod]
  | cons d L ih =>
    rw [List.flatten_cons, prod_append, List.map_cons, List.flatten_cons]
    exact (prod_comm e d).append ih

theorem prod_map_shiftBy (i : Rat × Rat) (j : Nat) (d e : Dist) :
    prod (d.map (shiftBy i j)) e = (prod d e).map (shiftBy i j) := by
  unfold prod
  rw [List.map_flatMap]
  refine List.flatMap_congr ?_
  intro b _
  rw [List.map_map, List.map_map]
  refine List.map_congr_left ?_
  intro a _
  simp only [Function.comp, shiftBy]
  refine Prod.ext ?_ ?_ <;> simp only <;> ring

/-- **Item 4.**  For any isotope list `i :: rest`: choose the `k` atoms (in `Nat.choose n k` ways)
    that are NOT on isotope `i`, arrange them over `rest`, put the other `n - k` atoms on `i`.
    Iterating this over the list gives the multinomial walk of the python oracle. -/
theorem arrangementsOf_cons_perm (i : Rat × Rat) (rest : Dist) (n : Nat) :
    (arrangementsOf (i :: rest) n).Perm
      ((List.range (n + 1)).flatMap fun k =>
        (List.replicate (Nat.choose n k)
          ((arrangementsOf rest k).map (shiftBy i (n - k)))).flatten) := by
  have hflat : ∀ (F : Nat → Dist) (n : Nat),
      ((List.range (n + 1)).flatMap fun k => (List.replicate (Nat.choose n k) (F k)).flatten)
        = (binomWalk F n).flatten := by
    intro F n; unfold binomWalk
    generalize List.range (n + 1) = l
    induction l with
    | nil => rfl
    | cons a l ihl => rw [List.flatMap_cons, List.flatMap_cons, List.flatten_append, ihl]
  rw [hflat (fun k => (arrangementsOf rest k).map (shiftBy i (n - k))) n]
  induction n with
  | zero => simp [arrangementsOf, binomWalk, shiftBy]
  | succ n ih =>
    rw [arrangementsOf_succ, prod_cons]
    refine ((ih.map _).append ((prod_perm_left rest ih).trans (prod_flatten_perm _ rest))).trans ?_
    refine List.Perm.trans ?_ (binomWalk_succ_perm _ n).flatten.symm
    rw [List.flatten_append, List.map_flatten, binomWalk_map, binomWalk_map]
    have h1 : binomWalk (fun k => ((arrangementsOf rest k).map (shiftBy i (n - k))).map
          (fun a => (a.1 + i.1, a.2 * i.2))) n
        = binomWalk (fun k => (arrangementsOf rest k).map (shiftBy i (n + 1 - k))) n := by
      refine binomWalk_congr n ?_
      intro k hk
      have e : n + 1 - k = (n - k) + 1 := by omega
      rw [List.map_map]
      refine List.map_congr_left ?_
      intro a _
      simp only [Function.comp, shiftBy, e, pow_succ, Nat.cast_add, Nat.cast_one]
      refine Prod.ext ?_ ?_ <;> simp only <;> ring
    have h2 : binomWalk (fun k => prod ((arrangementsOf rest k).map (shiftBy i (n - k))) rest) n
        = binomWalk (fun k => (arrangementsOf rest (k + 1)).map (shiftBy i (n + 1 - (k + 1)))) n := by
      refine binomWalk_congr n ?_
      intro k _
      have e : n + 1 - (k + 1) = n - k := by omega
      rw [prod_map_shiftBy, e, arrangementsOf_succ]
    rw [h1, h2]

example :
    (arrangementsOf [((1 : Rat), (1/4 : Rat)), (2, 3/4)] 3).Perm
      ((List.range 4).flatMap fun k =>
        List.replicate (Nat.choose 3 k)
          ((k : Rat) * 2 + ((3 - k : Nat) : Rat) * 1, (3/4 : Rat) ^ k * (1/4) ^ (3 - k))) := by
  decide +kernel

end Chem
