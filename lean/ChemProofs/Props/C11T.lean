import ChemProofs.Props.C11
/-
C11T — the whole function `isotopicConvolution` with a positive threshold.
-/
namespace Chem

/-- the tail of `isotopicConvolution` after the accumulation and the sort -/
def finish (out : Dist) (z : Int) (c t : Rat) : Option (List Peak) :=
  let peaks : List Peak := out.map fun (m, a) => { mz := chargedMz m z c, int := a }
  let p : Pattern := { peaks := peaks, origin := (peaks.head?.map (·.mz)).getD 0 }
  match p.normalize with
  | none => none
  | some q => (q.ignoreBelow t).map (·.peaks)

theorem isotopicConvolution_eq_finish (entries : List (Dist × Int)) (z : Int) (c t : Rat) :
    isotopicConvolution entries z c t = finish (sortByMass (convolveEntries t entries 0 [])) z c t := rfl

theorem finish_nil (z : Int) (c t : Rat) : finish [] z c t = some [] := by
  simp [finish, Pattern.normalize, Pattern.ignoreBelow]

/-- the peaks produced from a list all of whose abundances reach the threshold -/
def scaledPeaks (out : Dist) (z : Int) (c : Rat) : List Peak :=
  out.map fun x => { mz := chargedMz x.1 z c, int := x.2 / mass out }

/-- the tail on a non-empty list whose abundances all reach `t > 0` and sum to at most 1 -/
theorem finish_eq {out : Dist} {t : Rat} (ht : 0 < t) (hne : out ≠ []) (hall : ∀ x ∈ out, t ≤ x.2)
    (hle : mass out ≤ 1) (z : Int) (c : Rat) :
    finish out z c t = some (scaledPeaks out z c) := by
  have hpos : 0 < mass out := by
    cases out with
    | nil => exact absurd rfl hne
    | cons a l =>
      have h0 : ∀ l : Dist, (∀ x ∈ l, t ≤ x.2) → 0 ≤ mass l := by
        intro l
        induction l with
        | nil => intro _; simp [mass]
        | cons b l ih =>
          intro h
          have hb := h b (by simp)
          have := ih fun x hx => h x (List.mem_cons_of_mem _ hx)
          simp only [mass, List.map_cons, List.sum_cons] at this ⊢
          linarith
      have ha := hall a (by simp)
      have := h0 l fun x hx => hall x (List.mem_cons_of_mem _ hx)
      simp only [mass, List.map_cons, List.sum_cons] at this ⊢
      linarith
  have hS := hpos.ne'
  unfold finish
  simp only
  have hp0 : (List.map (fun x : Rat × Rat => match x with
        | (m, a) => ({ mz := chargedMz m z c, int := a } : Peak)) out) =
      out.map fun x => ({ mz := chargedMz x.1 z c, int := x.2 * 1 } : Peak) := by
    apply List.map_congr_left
    intro x _
    simp
  rw [hp0]
  set peaks0 : List Peak := out.map fun x => ({ mz := chargedMz x.1 z c, int := x.2 * 1 } : Peak) with hpk
  have ht0 : total peaks0 = mass out := by
    rw [hpk, total_map_peak out (fun m => chargedMz m z c) 1, mul_one]
  have hne0 : peaks0 ≠ [] := by
    rw [hpk]; intro h; exact hne (List.map_eq_nil_iff.mp h)
  rw [normalize_some _ hne0 (by rw [ht0]; exact hS)]
  simp only [Pattern.ignoreBelow, Pattern.scaleBy, ht0]
  have hfilter : (peaks0.map fun q => ({ q with int := q.int * (1 / mass out) } : Peak)).filter
      (fun q => decide (t ≤ q.int)) =
      out.map fun x => ({ mz := chargedMz x.1 z c, int := x.2 * (1 / mass out) } : Peak) := by
    rw [hpk, List.map_map]
    rw [List.filter_eq_self.mpr]
    · apply List.map_congr_left; intro x _; simp
    · intro q hq
      obtain ⟨x, hx, rfl⟩ := List.mem_map.mp hq
      have hx2 := hall x hx
      simp only [Function.comp, decide_eq_true_eq, mul_one]
      have h1 : 1 ≤ 1 / mass out := by rw [le_div_iff₀ hpos]; linarith
      calc t ≤ x.2 := hx2
        _ = x.2 * 1 := (mul_one _).symm
        _ ≤ x.2 * (1 / mass out) := mul_le_mul_of_nonneg_left h1 (le_trans ht.le hx2)
  rw [hfilter]
  set peaks1 : List Peak :=
    out.map fun x => ({ mz := chargedMz x.1 z c, int := x.2 * (1 / mass out) } : Peak) with hpk1
  have ht1 : total peaks1 = 1 := by
    rw [hpk1, total_map_peak out (fun m => chargedMz m z c)]
    field_simp
  have hne1 : peaks1 ≠ [] := by
    rw [hpk1]; intro h; exact hne (List.map_eq_nil_iff.mp h)
  rw [normalize_some _ hne1 (by simp only [ht1]; exact one_ne_zero)]
  simp only [Pattern.scaleBy, ht1, Option.map_some, Option.some.injEq]
  rw [hpk1, List.map_map, scaledPeaks]
  apply List.map_congr_left
  intro x _
  simp [div_eq_mul_inv]

/-- the arrangements whose probability reaches the threshold -/
abbrev reaching (es : List (Dist × Nat)) (t : Rat) : Dist :=
  (arrangements es).filter (fun x => decide (t ≤ x.2))

theorem conv_eq_reaching {t : Rat} {es : List (Dist × Nat)} (hne : es ≠ []) (hes : ∀ x ∈ es, Unit01 x.1)
    (hnd : ¬ Degenerate es) :
    convolveEntries t (es.map (fun e => (e.1, (e.2 : Int)))) 0 [] = reaching es t := by
  have := conv_pruned hne (fun x hx => Good.of_unit01 (t := t) (hes x hx)) hnd
  simp only [toEntries] at this
  rw [this]; rfl

theorem mass_nonneg {d : Dist} (h : NonNeg d) : 0 ≤ mass d := by
  induction d with
  | nil => simp [mass]
  | cons a d ih =>
    have ha := h a (by simp)
    have := ih fun x hx => h x (List.mem_cons_of_mem _ hx)
    simp only [mass, List.map_cons, List.sum_cons] at this ⊢
    linarith

theorem mass_keep_le {d : Dist} (h : NonNeg d) (t : Rat) : mass (keep t d) ≤ mass d := by
  induction d with
  | nil => simp [keep]
  | cons a d ih =>
    have ha := h a (by simp)
    have := ih fun x hx => h x (List.mem_cons_of_mem _ hx)
    by_cases hk : t ≤ a.2
    · have e : keep t (a :: d) = a :: keep t d := by simp [keep, hk]
      rw [e]
      simp only [mass, List.map_cons, List.sum_cons] at this ⊢
      linarith
    · have e : keep t (a :: d) = keep t d := by simp [keep, hk]
      rw [e]
      simp only [mass, List.map_cons, List.sum_cons] at this ⊢
      linarith

/-- sub-probability isotope distributions give a sub-probability arrangement list -/
theorem mass_arrangements_le_one {es : List (Dist × Nat)} (hes : ∀ x ∈ es, NonNeg x.1)
    (hle : ∀ x ∈ es, mass x.1 ≤ 1) : mass (arrangements es) ≤ 1 := by
  rw [mass_arrangements]
  induction es with
  | nil => simp
  | cons e es ih =>
    rw [List.map_cons, List.prod_cons]
    have h1 : mass e.1 ^ e.2 ≤ 1 := pow_le_one₀ (mass_nonneg (hes e (by simp))) (hle e (by simp))
    have h0 : 0 ≤ mass e.1 ^ e.2 := pow_nonneg (mass_nonneg (hes e (by simp))) _
    have h2 := ih (fun x hx => hes x (List.mem_cons_of_mem _ hx)) (fun x hx => hle x (List.mem_cons_of_mem _ hx))
    exact mul_le_one₀ h1 (by
      rw [← mass_arrangements]
      exact mass_nonneg (Good.arrangements fun x hx =>
        Good.of_nonneg (hes x (List.mem_cons_of_mem _ hx))).nonneg) h2

theorem mass_reaching_le_one {es : List (Dist × Nat)} (hes : ∀ x ∈ es, Unit01 x.1)
    (hle : ∀ x ∈ es, mass x.1 ≤ 1) (t : Rat) : mass (reaching es t) ≤ 1 := by
  have hnn : ∀ x ∈ es, NonNeg x.1 := fun x hx y hy => (hes x hx y hy).1
  exact le_trans (mass_keep_le (Good.arrangements fun x hx => Good.of_nonneg (hnn x hx)).nonneg t)
    (mass_arrangements_le_one hnn hle)

/-- **the whole function at a positive threshold**, as an equation.  Added hypothesis (necessary, see the
    counterexample below): the reaching arrangements have total probability at most 1.  `Unit01` alone
    bounds each abundance, not their sum. -/
theorem isotopicConvolution_threshold_eq {es : List (Dist × Nat)} {t : Rat} (ht : 0 < t) (hne : es ≠ [])
    (hes : ∀ x ∈ es, Unit01 x.1) (hnd : ¬ Degenerate es) (hK : reaching es t ≠ [])
    (hle : mass (reaching es t) ≤ 1) (z : Int) (c : Rat) :
    isotopicConvolution (es.map (fun e => (e.1, (e.2 : Int)))) z c t =
      some ((sortByMass (reaching es t)).map fun x =>
        { mz := chargedMz x.1 z c, int := x.2 / mass (reaching es t) }) := by
  rw [isotopicConvolution_eq_finish, conv_eq_reaching hne hes hnd]
  have hperm := sortByMass_perm (reaching es t)
  have hm : mass (sortByMass (reaching es t)) = mass (reaching es t) := mass_perm hperm
  rw [finish_eq ht (fun h => hK (by simpa [h] using hperm.symm))
    (fun x hx => by simpa using (List.mem_filter.mp (hperm.subset hx)).2) (by rw [hm]; exact hle) z c,
    scaledPeaks, hm]

theorem threshold_aux {es : List (Dist × Nat)} {t : Rat} (ht : 0 < t) (hne : es ≠ [])
    (hes : ∀ x ∈ es, Unit01 x.1) (hnd : ¬ Degenerate es) (hK : reaching es t ≠ [])
    (hle : mass (reaching es t) ≤ 1) (z : Int) (c : Rat) :
    ∃ peaks : List Peak, isotopicConvolution (es.map (fun e => (e.1, (e.2 : Int)))) z c t = some peaks ∧
      total peaks = 1 ∧
      peaks.Pairwise (fun p q => p.mz ≤ q.mz) ∧
      (peaks.map (·.int)).Perm ((reaching es t).map fun x => x.2 / mass (reaching es t)) ∧
      (∀ p ∈ peaks, t ≤ p.int) ∧
      peaks.Perm ((reaching es t).map fun x =>
        ({ mz := chargedMz x.1 z c, int := x.2 / mass (reaching es t) } : Peak)) := by
  have hperm := sortByMass_perm (reaching es t)
  have hall : ∀ x ∈ reaching es t, t ≤ x.2 := fun x hx => by simpa using (List.mem_filter.mp hx).2
  have hpos : 0 < mass (reaching es t) := by
    have hnn : NonNeg (reaching es t) := fun x hx => le_trans ht.le (hall x hx)
    obtain ⟨a, l, hal⟩ := List.exists_cons_of_ne_nil hK
    have ha := hall a (by rw [hal]; simp)
    have hl : 0 ≤ mass l := mass_nonneg fun x hx => hnn x (by rw [hal]; exact List.mem_cons_of_mem _ hx)
    rw [hal]
    simp only [mass, List.map_cons, List.sum_cons] at hl ⊢
    linarith
  refine ⟨_, isotopicConvolution_threshold_eq ht hne hes hnd hK hle z c, ?_, ?_, ?_, ?_, ?_⟩
  · have := total_map_peak (sortByMass (reaching es t)) (fun m => chargedMz m z c)
      (1 / mass (reaching es t))
    simp only [← div_eq_mul_one_div] at this
    rw [this, mass_perm hperm]
    exact div_self hpos.ne'
  · rw [List.pairwise_map]
    exact (sortByMass_sorted _).imp fun h => chargedMz_mono z c h
  · have := (hperm.map fun x =>
      ({ mz := chargedMz x.1 z c, int := x.2 / mass (reaching es t) } : Peak)).map (·.int)
    simpa [List.map_map, Function.comp_def] using this
  · intro p hp
    obtain ⟨x, hx, rfl⟩ := List.mem_map.mp hp
    have hx2 := hall x (hperm.subset hx)
    show t ≤ x.2 / mass (reaching es t)
    rw [le_div_iff₀ hpos]
    calc t * mass (reaching es t) ≤ t * 1 := mul_le_mul_of_nonneg_left hle ht.le
      _ = t := mul_one _
      _ ≤ x.2 := hx2
  · exact hperm.map _

/-- **theorem 1** (`_partial`: the hypothesis `mass K ≤ 1` is added; it does not follow from `Unit01`, and
    the statement is false without it — see the counterexample at the end).  `0 < mass K` is not needed.
    The last conjunct (the peaks themselves, with their m/z) is extra. -/
theorem isotopicConvolution_threshold_partial {es : List (Dist × Nat)} {t : Rat} (ht : 0 < t) (hne : es ≠ [])
    (hes : ∀ x ∈ es, Unit01 x.1) (hnd : ¬ Degenerate es)
    (hK : (arrangements es).filter (fun x => decide (t ≤ x.2)) ≠ [])
    (hle : mass ((arrangements es).filter (fun x => decide (t ≤ x.2))) ≤ 1) (z : Int) (c : Rat) :
    ∃ peaks : List Peak, isotopicConvolution (es.map (fun e => (e.1, (e.2 : Int)))) z c t = some peaks ∧
      total peaks = 1 ∧
      peaks.Pairwise (fun p q => p.mz ≤ q.mz) ∧
      (peaks.map (·.int)).Perm (((arrangements es).filter (fun x => decide (t ≤ x.2))).map fun x =>
        x.2 / mass ((arrangements es).filter (fun x => decide (t ≤ x.2)))) ∧
      (∀ p ∈ peaks, t ≤ p.int) ∧
      peaks.Perm (((arrangements es).filter (fun x => decide (t ≤ x.2))).map fun x =>
        ({ mz := chargedMz x.1 z c,
           int := x.2 / mass ((arrangements es).filter (fun x => decide (t ≤ x.2))) } : Peak)) :=
  threshold_aux ht hne hes hnd hK hle z c

/-- the same with the bound on the total derived from the isotope distributions: each element's
    abundances sum to at most 1 (true of every real isotope table) -/
theorem isotopicConvolution_threshold_partial' {es : List (Dist × Nat)} {t : Rat} (ht : 0 < t) (hne : es ≠ [])
    (hes : ∀ x ∈ es, Unit01 x.1) (hsub : ∀ x ∈ es, mass x.1 ≤ 1) (hnd : ¬ Degenerate es)
    (hK : (arrangements es).filter (fun x => decide (t ≤ x.2)) ≠ []) (z : Int) (c : Rat) :
    ∃ peaks, isotopicConvolution (es.map (fun e => (e.1, (e.2 : Int)))) z c t = some peaks ∧
      total peaks = 1 ∧
      peaks.Pairwise (fun p q => p.mz ≤ q.mz) ∧
      (peaks.map (·.int)).Perm (((arrangements es).filter (fun x => decide (t ≤ x.2))).map fun x =>
        x.2 / mass ((arrangements es).filter (fun x => decide (t ≤ x.2)))) ∧
      (∀ p ∈ peaks, t ≤ p.int) := by
  obtain ⟨p, h1, h2, h3, h4, h5, _⟩ :=
    isotopicConvolution_threshold_partial ht hne hes hnd hK (mass_reaching_le_one hes hsub t) z c
  exact ⟨p, h1, h2, h3, h4, h5⟩

/-- **theorem 2**: no arrangement reaches the threshold — the result is `some []` (not `none`:
    `Pattern.normalize` returns the empty pattern unchanged, and so does `ignoreBelow`).
    Full strength, no added hypothesis (`0 < t` is not even needed). -/
theorem isotopicConvolution_threshold_none {es : List (Dist × Nat)} {t : Rat} (hne : es ≠ [])
    (hes : ∀ x ∈ es, Unit01 x.1) (hnd : ¬ Degenerate es)
    (hK : (arrangements es).filter (fun x => decide (t ≤ x.2)) = []) (z : Int) (c : Rat) :
    isotopicConvolution (es.map (fun e => (e.1, (e.2 : Int)))) z c t = some [] := by
  rw [isotopicConvolution_eq_finish, conv_eq_reaching hne hes hnd]
  change reaching es t = [] at hK
  rw [hK]
  have : sortByMass [] = [] := by simp [sortByMass]
  rw [this, finish_nil]

/-! ### non-vacuity, and the counterexample for the dropped bound -/

/-- the premises of theorem 1 (both forms) are satisfiable together: two entries, threshold 1/10;
    4 of the 32 arrangements reach it -/
example : (0 : Rat) < 1/10 ∧ [(demoD, 3), (demoE, 2)] ≠ [] ∧
    (∀ x ∈ [(demoD, 3), (demoE, 2)], Unit01 x.1) ∧ (∀ x ∈ [(demoD, 3), (demoE, 2)], mass x.1 ≤ 1) ∧
    ¬ Degenerate [(demoD, 3), (demoE, 2)] ∧
    (arrangements [(demoD, 3), (demoE, 2)]).filter (fun x => decide ((1/10 : Rat) ≤ x.2)) ≠ [] ∧
    ((arrangements [(demoD, 3), (demoE, 2)]).filter (fun x => decide ((1/10 : Rat) ≤ x.2))).length = 4 ∧
    mass ((arrangements [(demoD, 3), (demoE, 2)]).filter (fun x => decide ((1/10 : Rat) ≤ x.2))) ≤ 1 := by
  refine ⟨by norm_num, by simp, ?_, ?_, ?_, ?_, ?_, ?_⟩
  · simp only [Unit01, demoD, demoE]; decide +kernel
  · simp only [mass, demoD, demoE]; decide +kernel
  · rintro ⟨d, n, h, _⟩; simp at h
  · decide +kernel
  · decide +kernel
  · simp only [mass]; decide +kernel

example : ∃ peaks : List Peak, isotopicConvolution [(demoD, 3), (demoE, 2)] (-2) 1 (1/10) = some peaks ∧
    total peaks = 1 ∧ peaks.Pairwise (fun p q => p.mz ≤ q.mz) ∧ peaks.length = 4 ∧
    ∀ p ∈ peaks, (1/10 : Rat) ≤ p.int := by
  obtain ⟨p, h1, h2, h3, h4, h5⟩ := isotopicConvolution_threshold_partial' (es := [(demoD, 3), (demoE, 2)])
    (t := 1/10) (by norm_num) (by simp)
    (by simp only [Unit01, demoD, demoE]; decide +kernel)
    (by simp only [mass, demoD, demoE]; decide +kernel)
    (by rintro ⟨d, n, h, _⟩; simp at h) (by decide +kernel) (-2) 1
  refine ⟨p, h1, h2, h3, ?_, h5⟩
  have := h4.length_eq
  rw [List.length_map, List.length_map] at this
  rw [this]; decide +kernel

/-- an abundance list that is `Unit01` but sums to 2 -/
def badD : Dist := [(1, 1), (2, 1)]

theorem bad_sort : sortByMass [((2 : Rat), (1 : Rat)), (3, 1), (3, 1), (4, 1)] =
    [(2, 1), (3, 1), (3, 1), (4, 1)] := by
  norm_num [sortByMass, List.mergeSort, List.MergeSort.Internal.splitInTwo, List.merge]

/-- **counterexample**: every premise of the statement as first proposed holds (`Unit01`, not degenerate,
    `K ≠ []`, even `0 < mass K`), but `mass K = 4 > 1`, each renormalised intensity is `1/4 < t = 1/2`,
    the final `ignoreBelow` drops all four peaks, and the result is `some []` (total 0, not 1).
    Hence the bound `mass K ≤ 1` in `isotopicConvolution_threshold_partial` cannot be dropped. -/
theorem threshold_counterexample :
    (0 : Rat) < 1/2 ∧ [(badD, 2)] ≠ [] ∧ (∀ x ∈ [(badD, 2)], Unit01 x.1) ∧ ¬ Degenerate [(badD, 2)] ∧
    (arrangements [(badD, 2)]).filter (fun x => decide ((1/2 : Rat) ≤ x.2)) ≠ [] ∧
    0 < mass ((arrangements [(badD, 2)]).filter (fun x => decide ((1/2 : Rat) ≤ x.2))) ∧
    isotopicConvolution ([(badD, 2)].map (fun e => (e.1, (e.2 : Int)))) 1 0 (1/2) = some [] := by
  refine ⟨by norm_num, by simp, ?_, ?_, ?_, ?_, ?_⟩
  · simp only [Unit01, badD]; decide +kernel
  · rintro ⟨d, n, h, hn⟩
    simp at h
    omega
  · decide +kernel
  · simp only [mass]; decide +kernel
  · rw [isotopicConvolution_eq_finish]
    have hc : convolveEntries (1/2) ([(badD, 2)].map (fun e => (e.1, (e.2 : Int)))) 0 [] =
        [(2, 1), (3, 1), (3, 1), (4, 1)] := by decide +kernel
    rw [hc, bad_sort]
    decide +kernel


end Chem
