import ChemProofs.Model.Table
import ChemProofs.Model.BuildRs
/-
C12 — parametric part.  What the Boolean clauses evaluated over the regenerated table *mean*
(`wf_sound`), and correctness of `index_isotopes` for every element whatsoever.
The instantiation at the table compiled from /repo is `Inst/C12.lean`.
-/
namespace Chem

/-- Prop-level reading of the property's clauses for one element. -/
structure ElemWF (one : Int) (e : Elem) : Prop where
  own_symbol : e.tkey = e.sym
  keyed_by_nucleon : ∀ i ∈ e.isos, i.key = i.neutrons
  nonempty : e.isos ≠ []
  shift_def : ∀ i ∈ e.isos, i.shift = (i.key : Int) - (e.mostIso : Int)
  abund_pos : ∀ i ∈ e.isos, 0 < i.abund
  abund_le_one : ∀ i ∈ e.isos, i.abund ≤ one
  abund_sum_hi : 1000 * ((e.isos.map (·.abund)).foldl (· + ·) 0 - one) ≤ one
  abund_sum_lo : 1000 * (one - (e.isos.map (·.abund)).foldl (· + ·) 0) ≤ one
  most_abundant : ∃ m, e.iso? e.mostIso = some m ∧ (∀ i ∈ e.isos, i.abund ≤ m.abund) ∧ e.mostMass = m.mass
  min_shift : minInt (e.isos.map (·.shift)) = some e.minShift
  max_shift : maxInt (e.isos.map (·.shift)) = some e.maxShift

theorem wf_sound (one : Int) (e : Elem) (h : e.wf one = true) : ElemWF one e := by
  simp only [Elem.wf, Bool.and_eq_true] at h
  obtain ⟨⟨⟨⟨⟨⟨⟨h1, h2⟩, h3⟩, h4⟩, h5⟩, h6⟩, h7⟩, _h8⟩ := h
  simp only [Elem.cOwnSymbol, Bool.and_eq_true, beq_iff_eq] at h1
  simp only [Elem.cIsoKeys, Bool.and_eq_true, List.all_eq_true, beq_iff_eq] at h2
  simp only [Elem.cShift, List.all_eq_true, beq_iff_eq] at h3
  simp only [Elem.cAbundRange, List.all_eq_true, Bool.and_eq_true, decide_eq_true_eq] at h4
  simp only [Elem.cAbundSum, Bool.and_eq_true, decide_eq_true_eq] at h5
  simp only [Elem.cMinMax, Bool.and_eq_true, beq_iff_eq] at h7
  refine
    { own_symbol := h1.1
      keyed_by_nucleon := h2.1.1
      nonempty := ?_
      shift_def := h3
      abund_pos := fun i hi => (h4 i hi).1
      abund_le_one := fun i hi => (h4 i hi).2
      abund_sum_hi := h5.1
      abund_sum_lo := h5.2
      most_abundant := ?_
      min_shift := h7.1
      max_shift := h7.2 }
  · intro hnil
    have := h2.1.2
    simp [hnil] at this
  · simp only [Elem.cMostAbundant] at h6
    split at h6
    · simp at h6
    · rename_i m hm
      simp only [Bool.and_eq_true, List.all_eq_true, decide_eq_true_eq, beq_iff_eq] at h6
      exact ⟨m, hm, h6.1, h6.2⟩

/-- `index_isotopes` stores the true minimum and maximum neutron shift, for every element
    (whatever stale values the fields held before). -/
theorem indexIsotopes_max (e : Elem) :
    e.indexIsotopes.maxShift = (maxInt (e.isos.map (·.shift))).getD 0 := by
  simp [Elem.indexIsotopes, Elem.calcMax]

theorem indexIsotopes_min (e : Elem) :
    e.indexIsotopes.minShift = (minInt (e.isos.map (·.shift))).getD 0 := by
  simp [Elem.indexIsotopes, Elem.calcMin]

theorem indexIsotopes_other (e : Elem) :
    e.indexIsotopes.isos = e.isos ∧ e.indexIsotopes.sym = e.sym ∧
    e.indexIsotopes.mostIso = e.mostIso ∧ e.indexIsotopes.mostMass = e.mostMass := by
  simp [Elem.indexIsotopes]

/-- the shortcut in `calc_*_neutron_shift` is harmless on an indexed element -/
theorem calc_after_index (e : Elem) :
    e.indexIsotopes.calcMax = e.indexIsotopes.maxShift ∧
    e.indexIsotopes.calcMin = e.indexIsotopes.minShift := by
  constructor
  · simp only [Elem.calcMax]; split
    · rfl
    · rename_i h; simp only [ne_eq, Decidable.not_not] at h
      rw [h]; rw [indexIsotopes_max] at h; simp [Elem.indexIsotopes, h]
  · simp only [Elem.calcMin]; split
    · rfl
    · rename_i h; simp only [ne_eq, Decidable.not_not] at h
      rw [h]; rw [indexIsotopes_min] at h; simp [Elem.indexIsotopes, h]

/-- non-vacuity: a concrete two-isotope element meets every clause -/
def exampleAg : Elem :=
  { tkey := [65, 103], sym := [65, 103],
    isos := [{ key := 107, mass := 106905097, abund := 518390, neutrons := 107, shift := 0 },
             { key := 109, mass := 108904752, abund := 481610, neutrons := 109, shift := 2 }],
    mostIso := 107, mostMass := 106905097, minShift := 0, maxShift := 2, elemNum := 107 }

example : exampleAg.wf 1000000 = true := by decide

/-! ## completeness of the Boolean clauses (TASK K, part 3)

`Elem.wf'` is the conjunction of exactly the Boolean clauses that `ElemWF` talks about; `wf'_iff` shows the
Boolean check and the Prop reading coincide for them, and `wf_iff` characterises the full `Elem.wf` as
`ElemWF` plus the three clauses `ElemWF` leaves out (non-empty symbol, the isotope-0 rule, `cMasses`,
the last kept as a Boolean).  All fully proved; nothing missing. -/

/-- the Boolean clauses that `ElemWF` covers: everything in `Elem.wf` except (a) `!e.sym.isEmpty`,
    (b) the "isotope 0 ⇒ single entry of abundance 1" part of `cIsoKeys`, (c) `cMasses`. -/
def Elem.wf' (one : Int) (e : Elem) : Bool :=
  e.tkey == e.sym && e.isos.all (fun i => i.key == i.neutrons) && !e.isos.isEmpty &&
  e.cShift && e.cAbundRange one && e.cAbundSum one && e.cMostAbundant && e.cMinMax

/-- **completeness** of the Boolean clauses covered by `ElemWF` -/
theorem wf'_complete (one : Int) (e : Elem) (h : ElemWF one e) : e.wf' one = true := by
  obtain ⟨m, hm, hmax, hmass⟩ := h.most_abundant
  have hne : e.isos.isEmpty = false := by
    cases hi : e.isos with
    | nil => exact absurd hi h.nonempty
    | cons a l => rfl
  simp only [Elem.wf', Bool.and_eq_true, beq_iff_eq, List.all_eq_true, Elem.cShift, Elem.cAbundRange,
    Elem.cAbundSum, Elem.cMostAbundant, Elem.cMinMax, decide_eq_true_eq, hm, hne, Bool.not_false]
  exact ⟨⟨⟨⟨⟨⟨⟨h.own_symbol, h.keyed_by_nucleon⟩, trivial⟩, h.shift_def⟩,
    fun i hi => ⟨h.abund_pos i hi, h.abund_le_one i hi⟩⟩, h.abund_sum_hi, h.abund_sum_lo⟩,
    hmax, hmass⟩, h.min_shift, h.max_shift⟩

theorem wf'_sound (one : Int) (e : Elem) (h : e.wf' one = true) : ElemWF one e := by
  simp only [Elem.wf', Bool.and_eq_true] at h
  obtain ⟨⟨⟨⟨⟨⟨⟨h1, h2⟩, h2'⟩, h3⟩, h4⟩, h5⟩, h6⟩, h7⟩ := h
  simp only [beq_iff_eq] at h1
  simp only [List.all_eq_true, beq_iff_eq] at h2
  simp only [Elem.cShift, List.all_eq_true, beq_iff_eq] at h3
  simp only [Elem.cAbundRange, List.all_eq_true, Bool.and_eq_true, decide_eq_true_eq] at h4
  simp only [Elem.cAbundSum, Bool.and_eq_true, decide_eq_true_eq] at h5
  simp only [Elem.cMinMax, Bool.and_eq_true, beq_iff_eq] at h7
  refine
    { own_symbol := h1
      keyed_by_nucleon := h2
      nonempty := ?_
      shift_def := h3
      abund_pos := fun i hi => (h4 i hi).1
      abund_le_one := fun i hi => (h4 i hi).2
      abund_sum_hi := h5.1
      abund_sum_lo := h5.2
      most_abundant := ?_
      min_shift := h7.1
      max_shift := h7.2 }
  · intro hnil
    simp [hnil] at h2'
  · simp only [Elem.cMostAbundant] at h6
    split at h6
    · simp at h6
    · rename_i m hm
      simp only [Bool.and_eq_true, List.all_eq_true, decide_eq_true_eq, beq_iff_eq] at h6
      exact ⟨m, hm, h6.1, h6.2⟩

/-- `wf_sound` is an iff for the clauses covered by `ElemWF` -/
theorem wf'_iff (one : Int) (e : Elem) : e.wf' one = true ↔ ElemWF one e :=
  ⟨wf'_sound one e, wf'_complete one e⟩

/-- the full Boolean check implies the covered part -/
theorem wf_imp_wf' (one : Int) (e : Elem) (h : e.wf one = true) : e.wf' one = true :=
  wf'_complete one e (wf_sound one e h)

/-- the full check = covered part + the three clauses outside `ElemWF` -/
theorem wf_iff (one : Int) (e : Elem) :
    e.wf one = true ↔
      ElemWF one e ∧ e.sym ≠ [] ∧
      (e.isos.any (fun i => i.key == 0) = true →
        e.isos.length = 1 ∧ (∀ i ∈ e.isos, i.abund = one) ∧ e.mostIso = 0) ∧
      e.cMasses one = true := by
  constructor
  · intro h
    refine ⟨wf_sound one e h, ?_⟩
    simp only [Elem.wf, Bool.and_eq_true] at h
    obtain ⟨⟨⟨⟨⟨⟨⟨h1, h2⟩, _⟩, _⟩, _⟩, _⟩, _⟩, h8⟩ := h
    simp only [Elem.cOwnSymbol, Bool.and_eq_true, beq_iff_eq, Bool.not_eq_true', List.isEmpty_eq_false_iff] at h1
    simp only [Elem.cIsoKeys, Bool.and_eq_true] at h2
    refine ⟨h1.2, ?_, h8⟩
    intro hany
    have := h2.2
    rw [if_pos hany] at this
    simp only [Bool.and_eq_true, beq_iff_eq, List.all_eq_true] at this
    exact ⟨this.1.1, this.1.2, this.2⟩
  · rintro ⟨hw, hs, h0, h8⟩
    have hw' := wf'_complete one e hw
    simp only [Elem.wf', Bool.and_eq_true] at hw'
    obtain ⟨⟨⟨⟨⟨⟨⟨h1, h2⟩, h2'⟩, h3⟩, h4⟩, h5⟩, h6⟩, h7⟩ := hw'
    simp only [Elem.wf, Bool.and_eq_true]
    refine ⟨⟨⟨⟨⟨⟨⟨?_, ?_⟩, h3⟩, h4⟩, h5⟩, h6⟩, h7⟩, h8⟩
    · simp only [Elem.cOwnSymbol, Bool.and_eq_true, Bool.not_eq_true', List.isEmpty_eq_false_iff]
      exact ⟨h1, hs⟩
    · simp only [Elem.cIsoKeys, Bool.and_eq_true]
      refine ⟨⟨h2, h2'⟩, ?_⟩
      split
      · rename_i hany
        have := h0 hany
        simp only [Bool.and_eq_true, beq_iff_eq, List.all_eq_true]
        exact ⟨⟨this.1, this.2.1⟩, this.2.2⟩
      · rfl


example : exampleAg.wf' 1000000 = true := by decide

end Chem
