import ChemProofs.Model.Table
import ChemProofs.Model.BuildRs
/-
C12 — parametric part.  What the Boolean clauses evaluated over the regenerated table *mean*
(`wf_sound`), and correctness of `index_isotopes` for every element whatsoever.
The instantiation at the table compiled from /repo is `Inst/C12.lean`.
-/
namespace Chem

/-- Prop-level reading of the property's clauses for one element. -/
structure ElemWF (one : Int) (e : Elem) : Prop where
  own_symbol : e.tkey = e.sym
  keyed_by_nucleon : ∀ i ∈ e.isos, i.key = i.neutrons
  nonempty : e.isos ≠ []
  shift_def : ∀ i ∈ e.isos, i.shift = (i.key : Int) - (e.mostIso : Int)
  abund_pos : ∀ i ∈ e.isos, 0 < i.abund
  abund_le_one : ∀ i ∈ e.isos, i.abund ≤ one
  abund_sum_hi : 1000 * ((e.isos.map (·.abund)).foldl (· + ·) 0 - one) ≤ one
  abund_sum_lo : 1000 * (one - (e.isos.map (·.abund)).foldl (· + ·) 0) ≤ one
  most_abundant : ∃ m, e.iso? e.mostIso = some m ∧ (∀ i ∈ e.isos, i.abund ≤ m.abund) ∧ e.mostMass = m.mass
  min_shift : minInt (e.isos.map (·.shift)) = some e.minShift
  max_shift : maxInt (e.isos.map (·.shift)) = some e.maxShift

theorem wf_sound (one : Int) (e : Elem) (h : e.wf one = true) : ElemWF one e := by
  simp only [Elem.wf, Bool.and_eq_true] at h
  obtain ⟨⟨⟨⟨⟨⟨⟨h1, h2⟩, h3⟩, h4⟩, h5⟩, h6⟩, h7⟩, _h8⟩ := h
  simp only [Elem.cOwnSymbol, Bool.and_eq_true, beq_iff_eq] at h1
  simp only [Elem.cIsoKeys, Bool.and_eq_true, List.all_eq_true, beq_iff_eq] at h2
  simp only [Elem.cShift, List.all_eq_true, beq_iff_eq] at h3
  simp only [Elem.cAbundRange, List.all_eq_true, Bool.and_eq_true, decide_eq_true_eq] at h4
  simp only [Elem.cAbundSum, Bool.and_eq_true, decide_eq_true_eq] at h5
  simp only [Elem.cMinMax, Bool.and_eq_true, beq_iff_eq] at h7
  refine
    { own_symbol := h1.1
      keyed_by_nucleon := h2.1.1
      nonempty := ?_
      shift_def := h3
      abund_pos := fun i hi => (h4 i hi).1
      abund_le_one := fun i hi => (h4 i hi).2
      abund_sum_hi := h5.1
      abund_sum_lo := h5.2
      most_abundant := ?_
      min_shift := h7.1
      max_shift := h7.2 }
  · intro hnil
    have := h2.1.2
    simp [hnil] at this
  · simp only [Elem.cMostAbundant] at h6
    split at h6
    · simp at h6
    · rename_i m hm
      simp only [Bool.and_eq_true, List.all_eq_true, decide_eq_true_eq, beq_iff_eq] at h6
      exact ⟨m, hm, h6.1, h6.2⟩

/-- `index_isotopes` stores the true minimum and maximum neutron shift, for every element
    (whatever stale values the fields held before). -/
theorem indexIsotopes_max (e : Elem) :
    e.indexIsotopes.maxShift = (maxInt (e.isos.map (·.shift))).getD 0 := by
  simp [Elem.indexIsotopes, Elem.calcMax]

theorem indexIsotopes_min (e : Elem) :
    e.indexIsotopes.minShift = (minInt (e.isos.map (·.shift))).getD 0 := by
  simp [Elem.indexIsotopes, Elem.calcMin]

theorem indexIsotopes_other (e : Elem) :
    e.indexIsotopes.isos = e.isos ∧ e.indexIsotopes.sym = e.sym ∧
    e.indexIsotopes.mostIso = e.mostIso ∧ e.indexIsotopes.mostMass = e.mostMass := by
  simp [Elem.indexIsotopes]

/-- the shortcut in `calc_*_neutron_shift` is harmless on an indexed element -/
theorem calc_after_index (e : Elem) :
    e.indexIsotopes.calcMax = e.indexIsotopes.maxShift ∧
    e.indexIsotopes.calcMin = e.indexIsotopes.minShift := by
  constructor
  · simp only [Elem.calcMax]; split
    · rfl
    · rename_i h; simp only [ne_eq, Decidable.not_not] at h
      rw [h]; rw [indexIsotopes_max] at h; simp [Elem.indexIsotopes, h]
  · simp only [Elem.calcMin]; split
    · rfl
    · rename_i h; simp only [ne_eq, Decidable.not_not] at h
      rw [h]; rw [indexIsotopes_min] at h; simp [Elem.indexIsotopes, h]

/-- non-vacuity: a concrete two-isotope element meets every clause -/
def exampleAg : Elem :=
  { tkey := [65, 103], sym := [65, 103],
    isos := [{ key := 107, mass := 106905097, abund := 518390, neutrons := 107, shift := 0 },
             { key := 109, mass := 108904752, abund := 481610, neutrons := 109, shift := 2 }],
    mostIso := 107, mostMass := 106905097, minShift := 0, maxShift := 2, elemNum := 107 }

example : exampleAg.wf 1000000 = true := by decide

end Chem
