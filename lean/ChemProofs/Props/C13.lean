import ChemProofs.Lemmas.Peaks
/-
C13 — truncation, filtering, scaling and shifting do exactly what they say (exact arithmetic).
-/
namespace Chem
open Pattern

/-- `scale_by` multiplies every intensity by the factor and nothing else -/
theorem scaleBy_spec (p : Pattern) (f : Rat) :
    (p.scaleBy f).peaks = p.peaks.map (fun q => ⟨q.mz, q.int * f⟩) ∧ (p.scaleBy f).origin = p.origin := ⟨rfl, rfl⟩

/-- `shift` / `clone_shifted` add the offset to every m/z and to the origin, leave intensities alone -/
theorem shift_spec (p : Pattern) (o : Rat) :
    (p.shift o).peaks = p.peaks.map (fun q => ⟨q.mz + o, q.int⟩) ∧ (p.shift o).origin = p.origin + o ∧
    p.cloneShifted o = p.shift o := ⟨rfl, rfl, rfl⟩

/-- `normalize` on a pattern with non-zero total: shape -/
theorem normalize_some (p : Pattern) (hne : p.peaks ≠ []) (ht : total p.peaks ≠ 0) :
    p.normalize = some (p.scaleBy (1 / total p.peaks)) := by
  unfold Pattern.normalize
  have : p.peaks.isEmpty = false := by cases h : p.peaks <;> simp_all
  simp [this, ht]

/-- `normalize` makes the intensities sum to 1 … -/
theorem normalize_sum (p q : Pattern) (hne : p.peaks ≠ []) (ht : total p.peaks ≠ 0) (h : p.normalize = some q) :
    total q.peaks = 1 := by
  rw [normalize_some p hne ht] at h
  injection h with h
  subst h
  simp only [Pattern.scaleBy]
  rw [total_scale]
  field_simp

/-- … preserves every m/z, the origin and the number of peaks, and preserves intensity ratios -/
theorem normalize_shape (p q : Pattern) (hne : p.peaks ≠ []) (ht : total p.peaks ≠ 0) (h : p.normalize = some q) :
    q.peaks.map (·.mz) = p.peaks.map (·.mz) ∧ q.origin = p.origin ∧ q.peaks.length = p.peaks.length ∧
    q.peaks.map (·.int) = p.peaks.map (fun x => x.int * (1 / total p.peaks)) := by
  rw [normalize_some p hne ht] at h
  injection h with h
  subst h
  simp [Pattern.scaleBy, List.map_map, Function.comp_def]

theorem normalize_ratio (p q : Pattern) (hne : p.peaks ≠ []) (ht : total p.peaks ≠ 0) (h : p.normalize = some q)
    (i j : Nat) (a b a' b' : Peak) (ha : p.peaks[i]? = some a) (hb : p.peaks[j]? = some b)
    (ha' : q.peaks[i]? = some a') (hb' : q.peaks[j]? = some b') :
    a'.int * b.int = b'.int * a.int := by
  rw [normalize_some p hne ht] at h
  injection h with h
  subst h
  simp only [Pattern.scaleBy, List.getElem?_map, ha, hb, Option.map_some, Option.some.injEq] at ha' hb'
  subst ha' hb'
  simp only
  ring

/-- **`truncate_after(t)` keeps the shortest (non-empty) prefix whose cumulative intensity reaches
    `t` — all peaks if `t` is never reached — and renormalises it** -/
theorem truncate_eq_spec (p : Pattern) (t : Rat) : p.truncateAfter t = Spec.truncateAfter p t := by
  unfold Pattern.truncateAfter Spec.truncateAfter
  have := (stopLoop_prefix t p.peaks).1
  simp only [this]

/-- **`ignore_below(t)` keeps, in order, exactly the peaks with intensity at least `t`, renormalised** -/
theorem ignore_eq_spec (p : Pattern) (t : Rat) : p.ignoreBelow t = Spec.ignoreBelow p t := rfl

/-- the survivors of both operations sum to 1 when any survive with positive intensities -/
theorem truncate_sum (p q : Pattern) (t : Rat) (hne : p.peaks ≠ []) (hpos : ∀ x ∈ p.peaks, 0 < x.int)
    (h : p.truncateAfter t = some q) : total q.peaks = 1 := by
  rw [truncate_eq_spec] at h
  unfold Spec.truncateAfter at h
  have hsub : ∀ x ∈ Spec.prefixReaching t p.peaks, x ∈ p.peaks := by
    intro x hx
    unfold Spec.prefixReaching at hx
    split at hx
    · exact List.mem_of_mem_take hx
    · exact hx
  have hne' : Spec.prefixReaching t p.peaks ≠ [] := by
    unfold Spec.prefixReaching
    split
    · cases hp : p.peaks with
      | nil => exact absurd hp hne
      | cons x xs => simp
    · exact hne
  exact normalize_sum _ q hne' (total_pos _ hne' (fun x hx => hpos x (hsub x hx))).ne' h

theorem ignore_sum (p q : Pattern) (t : Rat) (hpos : ∀ x ∈ p.peaks, 0 < x.int)
    (hsome : (p.peaks.filter (fun x => t ≤ x.int)) ≠ []) (h : p.ignoreBelow t = some q) : total q.peaks = 1 := by
  unfold Pattern.ignoreBelow at h
  exact normalize_sum _ q hsome
    (total_pos _ hsome (fun x hx => hpos x (List.mem_of_mem_filter hx))).ne' h

/-- non-vacuity, and the witness of the repaired defect D18 (threshold never reached) -/
def demo : Pattern := ⟨[⟨100, 1/2⟩, ⟨101, 1/4⟩, ⟨102, 1/8⟩, ⟨103, 1/16⟩], 100⟩
example : (demo.truncateAfter (7/10)).map (·.peaks.length) = some 2 := by decide +kernel
example : (demo.truncateAfter 1).map (·.peaks.length) = some 4 := by decide +kernel
example : (demo.ignoreBelow (1/8)).map (·.peaks.map (·.int)) = some [4/7, 2/7, 1/7] := by decide +kernel

end Chem
