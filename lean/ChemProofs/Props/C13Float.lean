import Mathlib.Tactic.FieldSimp
import Mathlib.Tactic.Ring
import Mathlib.Tactic.Linarith
import Mathlib.Tactic.Positivity
import Mathlib.Tactic.NormNum
import Mathlib.Algebra.Order.Field.Rat
import Mathlib.Algebra.Order.Field.Basic
import Mathlib.Algebra.Order.Ring.Abs
import ChemProofs.Model.Float
/-
Floating-point error bounds (standard model, `Model/Float.lean`) for `total`, `normalize`,
`mass_charge_ratio` / `neutral_mass`.
-/
namespace Chem

/-! ### `ratAbs` is the ordinary absolute value -/

theorem ratAbs_eq_abs (x : ℚ) : ratAbs x = |x| := by
  unfold ratAbs
  split_ifs with h
  · exact (abs_of_neg h).symm
  · exact (abs_of_nonneg (not_lt.mp h)).symm

/-! ### 1. one rounding -/

theorem rnd_abs {F : FlModel} (hF : F.OK) (x : ℚ) : |F.rnd x - x| ≤ F.u * |x| := by
  have := hF.2 x
  rwa [ratAbs_eq_abs, ratAbs_eq_abs] at this

theorem rnd_bounds {F : FlModel} (hF : F.OK) {x : ℚ} (hx : 0 ≤ x) :
    (1 - F.u) * x ≤ F.rnd x ∧ F.rnd x ≤ (1 + F.u) * x := by
  have h := rnd_abs hF x
  rw [abs_of_nonneg hx, abs_le] at h
  constructor <;> linarith [h.1, h.2]

theorem rnd_bounds_nonpos {F : FlModel} (hF : F.OK) {x : ℚ} (hx : x ≤ 0) :
    (1 + F.u) * x ≤ F.rnd x ∧ F.rnd x ≤ (1 - F.u) * x := by
  have h := rnd_abs hF x
  rw [abs_of_nonpos hx, abs_le] at h
  constructor <;> linarith [h.1, h.2]

theorem rnd_nonneg {F : FlModel} (hF : F.OK) (hu : F.u ≤ 1) {x : ℚ} (hx : 0 ≤ x) :
    0 ≤ F.rnd x :=
  le_trans (mul_nonneg (by linarith) hx) (rnd_bounds hF hx).1

theorem rnd_pos {F : FlModel} (hF : F.OK) (hu : F.u < 1) {x : ℚ} (hx : 0 < x) :
    0 < F.rnd x :=
  lt_of_lt_of_le (mul_pos (by linarith) hx) (rnd_bounds hF hx.le).1

/-- every rounding is a multiplication by `1 + δ` with `|δ| ≤ u` -/
theorem rnd_eq {F : FlModel} (hF : F.OK) (x : ℚ) :
    ∃ δ : ℚ, ratAbs δ ≤ F.u ∧ F.rnd x = x * (1 + δ) := by
  have h := rnd_abs hF x
  by_cases hx : x = 0
  · subst hx
    refine ⟨0, by rw [ratAbs_eq_abs, abs_zero]; exact hF.1, ?_⟩
    simp only [abs_zero, mul_zero, sub_zero] at h
    have := abs_nonpos_iff.mp h
    rw [this]; ring
  · refine ⟨(F.rnd x - x) / x, ?_, by field_simp; ring⟩
    rw [ratAbs_eq_abs, abs_div, div_le_iff₀ (abs_pos.mpr hx)]
    exact h

/-! ### 2. the left-to-right sum -/

theorem foldl_bounds {F : FlModel} (hF : F.OK) (hu : F.u ≤ 1) :
    ∀ (l : List ℚ) (acc : ℚ), (∀ x ∈ l, 0 ≤ x) → 0 ≤ acc →
      (1 - F.u) ^ l.length * (acc + l.sum) ≤ l.foldl (fun acc x => F.rnd (acc + x)) acc ∧
      l.foldl (fun acc x => F.rnd (acc + x)) acc ≤ (1 + F.u) ^ l.length * (acc + l.sum)
  | [], acc, _, _ => by simp
  | x :: l, acc, hl, hacc => by
    have hx : 0 ≤ x := hl x (List.mem_cons_self ..)
    have hl' : ∀ y ∈ l, 0 ≤ y := fun y hy => hl y (List.mem_cons_of_mem _ hy)
    have hax : 0 ≤ acc + x := add_nonneg hacc hx
    have hr := rnd_bounds hF hax
    have hr0 : 0 ≤ F.rnd (acc + x) := rnd_nonneg hF hu hax
    have ih := foldl_bounds hF hu l (F.rnd (acc + x)) hl' hr0
    have hs : 0 ≤ l.sum := List.sum_nonneg hl'
    have h0 := hF.1
    have hp1 : 0 ≤ (1 - F.u) ^ l.length := pow_nonneg (by linarith) _
    have hp2 : 0 ≤ (1 + F.u) ^ l.length := pow_nonneg (by linarith) _
    simp only [List.foldl_cons, List.length_cons, List.sum_cons, pow_succ]
    constructor
    · refine le_trans ?_ ih.1
      rw [mul_assoc]
      apply mul_le_mul_of_nonneg_left _ hp1
      nlinarith [hr.1, mul_nonneg h0 hs]
    · refine le_trans ih.2 ?_
      rw [mul_assoc]
      apply mul_le_mul_of_nonneg_left _ hp2
      nlinarith [hr.2, mul_nonneg h0 hs]

theorem flSum_bounds {F : FlModel} (hF : F.OK) {l : List ℚ} (hl : ∀ x ∈ l, 0 ≤ x)
    (hu : F.u ≤ 1) :
    (1 - F.u) ^ l.length * l.sum ≤ flSum F l ∧ flSum F l ≤ (1 + F.u) ^ l.length * l.sum := by
  have := foldl_bounds hF hu l 0 hl le_rfl
  simpa [flSum] using this

/-! ### 3./4. `normalize` -/

/-- the computed total of a non-empty list of positive intensities is positive -/
theorem flSum_pos {F : FlModel} (hF : F.OK) {l : List ℚ} (hne : l ≠ []) (hl : ∀ x ∈ l, 0 < x)
    (hu : F.u < 1) : 0 < l.sum ∧ 0 < flSum F l := by
  have hT : 0 < l.sum := by
    cases l with
    | nil => exact absurd rfl hne
    | cons x l =>
      rw [List.sum_cons]
      have hx : 0 < x := hl x (List.mem_cons_self ..)
      have : 0 ≤ l.sum := List.sum_nonneg fun y hy => (hl y (List.mem_cons_of_mem _ hy)).le
      linarith
  refine ⟨hT, lt_of_lt_of_le ?_ (flSum_bounds hF (fun x hx => (hl x hx).le) hu.le).1⟩
  exact mul_pos (pow_pos (by linarith) _) hT

/-- bounds on the rounded reciprocal `r = rnd (1 / total)` -/
theorem recip_bounds {F : FlModel} (hF : F.OK) {l : List ℚ} (hne : l ≠ []) (hl : ∀ x ∈ l, 0 < x)
    (hu : F.u < 1) :
    (1 - F.u) / ((1 + F.u) ^ l.length * l.sum) ≤ F.rnd (1 / flSum F l) ∧
    F.rnd (1 / flSum F l) ≤ (1 + F.u) / ((1 - F.u) ^ l.length * l.sum) := by
  obtain ⟨hT, hS⟩ := flSum_pos hF hne hl hu
  have hb := flSum_bounds hF (fun x hx => (hl x hx).le) hu.le
  have h0 := hF.1
  have hr := rnd_bounds hF (x := 1 / flSum F l) (by positivity)
  have hlo : 0 < (1 - F.u) ^ l.length * l.sum := mul_pos (pow_pos (by linarith) _) hT
  have hhi : 0 < (1 + F.u) ^ l.length * l.sum := mul_pos (pow_pos (by linarith) _) hT
  constructor
  · refine le_trans ?_ hr.1
    rw [div_eq_mul_one_div]
    apply mul_le_mul_of_nonneg_left _ (by linarith)
    exact one_div_le_one_div_of_le hS hb.2
  · refine le_trans hr.2 ?_
    rw [div_eq_mul_one_div (1 + F.u)]
    apply mul_le_mul_of_nonneg_left _ (by linarith)
    exact one_div_le_one_div_of_le hlo hb.1

theorem recip_pos {F : FlModel} (hF : F.OK) {l : List ℚ} (hne : l ≠ []) (hl : ∀ x ∈ l, 0 < x)
    (hu : F.u < 1) : 0 < F.rnd (1 / flSum F l) := by
  obtain ⟨_, hS⟩ := flSum_pos hF hne hl hu
  exact rnd_pos hF hu (by positivity)

/-- exact sum of the scaled-and-rounded entries against the exact scaled sum -/
theorem sum_map_rnd_bounds {F : FlModel} (hF : F.OK) {r : ℚ} (hr : 0 ≤ r) :
    ∀ (l : List ℚ), (∀ x ∈ l, 0 ≤ x) →
      (1 - F.u) * (l.sum * r) ≤ (l.map fun x => F.rnd (x * r)).sum ∧
      (l.map fun x => F.rnd (x * r)).sum ≤ (1 + F.u) * (l.sum * r)
  | [], _ => by simp
  | x :: l, hl => by
    have hx : 0 ≤ x := hl x (List.mem_cons_self ..)
    have ih := sum_map_rnd_bounds hF hr l fun y hy => hl y (List.mem_cons_of_mem _ hy)
    have hb := rnd_bounds hF (mul_nonneg hx hr)
    simp only [List.map_cons, List.sum_cons]
    constructor
    · linarith [hb.1, ih.1]
    · linarith [hb.2, ih.2]

theorem flNormalize_sum {F : FlModel} (hF : F.OK) {l : List ℚ} (hne : l ≠ [])
    (hl : ∀ x ∈ l, 0 < x) (hu : F.u < 1) :
    (1 - F.u) ^ 2 / (1 + F.u) ^ l.length ≤ (flNormalize F l).sum ∧
    (flNormalize F l).sum ≤ (1 + F.u) ^ 2 / (1 - F.u) ^ l.length := by
  obtain ⟨hT, hS⟩ := flSum_pos hF hne hl hu
  have h0 := hF.1
  have hrb := recip_bounds hF hne hl hu
  have hrp := recip_pos hF hne hl hu
  have hs := sum_map_rnd_bounds hF hrp.le l fun x hx => (hl x hx).le
  have hp1 : 0 < (1 - F.u) ^ l.length := pow_pos (by linarith) _
  have hp2 : 0 < (1 + F.u) ^ l.length := pow_pos (by linarith) _
  unfold flNormalize
  constructor
  · refine le_trans ?_ hs.1
    have e : (1 - F.u) ^ 2 / (1 + F.u) ^ l.length
        = (1 - F.u) * (l.sum * ((1 - F.u) / ((1 + F.u) ^ l.length * l.sum))) := by
      field_simp
    rw [e]
    apply mul_le_mul_of_nonneg_left _ (by linarith)
    exact mul_le_mul_of_nonneg_left hrb.1 hT.le
  · refine le_trans hs.2 ?_
    have e : (1 + F.u) ^ 2 / (1 - F.u) ^ l.length
        = (1 + F.u) * (l.sum * ((1 + F.u) / ((1 - F.u) ^ l.length * l.sum))) := by
      field_simp
    rw [e]
    apply mul_le_mul_of_nonneg_left _ (by linarith)
    exact mul_le_mul_of_nonneg_left hrb.2 hT.le

/-- the `i`-th computed entry is `rnd (x_i * r)` -/
theorem flNormalize_getElem? {F : FlModel} {l : List ℚ} {i : Nat} {x y : ℚ}
    (hx : l[i]? = some x) (hy : (flNormalize F l)[i]? = some y) :
    y = F.rnd (x * F.rnd (1 / flSum F l)) := by
  simp only [flNormalize, List.getElem?_map, hx, Option.map_some, Option.some.injEq] at hy
  exact hy.symm

theorem flNormalize_entry {F : FlModel} (hF : F.OK) {l : List ℚ} (hne : l ≠ [])
    (hl : ∀ x ∈ l, 0 < x) (hu : F.u < 1) {i : Nat} {x y : ℚ}
    (hx : l[i]? = some x) (hy : (flNormalize F l)[i]? = some y) :
    (1 - F.u) ^ 2 / (1 + F.u) ^ l.length * (x / l.sum) ≤ y ∧
    y ≤ (1 + F.u) ^ 2 / (1 - F.u) ^ l.length * (x / l.sum) := by
  obtain ⟨hT, hS⟩ := flSum_pos hF hne hl hu
  have h0 := hF.1
  have hrb := recip_bounds hF hne hl hu
  have hrp := recip_pos hF hne hl hu
  have hxp : 0 < x := hl x (List.mem_of_getElem? hx)
  have hb := rnd_bounds hF (mul_nonneg hxp.le hrp.le)
  have hp1 : 0 < (1 - F.u) ^ l.length := pow_pos (by linarith) _
  have hp2 : 0 < (1 + F.u) ^ l.length := pow_pos (by linarith) _
  rw [flNormalize_getElem? hx hy]
  constructor
  · refine le_trans ?_ hb.1
    have e : (1 - F.u) ^ 2 / (1 + F.u) ^ l.length * (x / l.sum)
        = (1 - F.u) * (x * ((1 - F.u) / ((1 + F.u) ^ l.length * l.sum))) := by
      field_simp
    rw [e]
    apply mul_le_mul_of_nonneg_left _ (by linarith)
    exact mul_le_mul_of_nonneg_left hrb.1 hxp.le
  · refine le_trans hb.2 ?_
    have e : (1 + F.u) ^ 2 / (1 - F.u) ^ l.length * (x / l.sum)
        = (1 + F.u) * (x * ((1 + F.u) / ((1 - F.u) ^ l.length * l.sum))) := by
      field_simp
    rw [e]
    apply mul_le_mul_of_nonneg_left _ (by linarith)
    exact mul_le_mul_of_nonneg_left hrb.2 hxp.le

/-- ratios of computed intensities are the ratios of the inputs up to `(1 + u) / (1 - u)`: both
entries are multiplied by the same reciprocal, only the final rounding differs -/
theorem flNormalize_ratio {F : FlModel} (hF : F.OK) {l : List ℚ} (hne : l ≠ [])
    (hl : ∀ x ∈ l, 0 < x) (hu : F.u < 1) {i j : Nat} {xi xj yi yj : ℚ}
    (hxi : l[i]? = some xi) (hyi : (flNormalize F l)[i]? = some yi)
    (hxj : l[j]? = some xj) (hyj : (flNormalize F l)[j]? = some yj) :
    yi * xj * (1 - F.u) ≤ yj * xi * (1 + F.u) := by
  have h0 := hF.1
  have hrp := recip_pos hF hne hl hu
  have hxip : 0 < xi := hl xi (List.mem_of_getElem? hxi)
  have hxjp : 0 < xj := hl xj (List.mem_of_getElem? hxj)
  have hbi := rnd_bounds hF (mul_nonneg hxip.le hrp.le)
  have hbj := rnd_bounds hF (mul_nonneg hxjp.le hrp.le)
  rw [flNormalize_getElem? hxi hyi, flNormalize_getElem? hxj hyj]
  set r := F.rnd (1 / flSum F l)
  have h1 : F.rnd (xi * r) * xj * (1 - F.u) ≤ (1 + F.u) * (xi * r) * xj * (1 - F.u) :=
    mul_le_mul_of_nonneg_right (mul_le_mul_of_nonneg_right hbi.2 hxjp.le) (by linarith)
  have h2 : (1 - F.u) * (xj * r) * xi * (1 + F.u) ≤ F.rnd (xj * r) * xi * (1 + F.u) :=
    mul_le_mul_of_nonneg_right (mul_le_mul_of_nonneg_right hbj.1 hxip.le) (by linarith)
  linarith

/-! ### 5. binary64 instance -/

/-- Bernoulli: `1 - n u ≤ (1 - u)^n` -/
theorem one_sub_pow_ge {u : ℚ} (h0 : 0 ≤ u) (h1 : u ≤ 1) :
    ∀ n : Nat, 1 - (n : ℚ) * u ≤ (1 - u) ^ n
  | 0 => by simp
  | n + 1 => by
    have ih := one_sub_pow_ge h0 h1 n
    have hn : (0 : ℚ) ≤ n := Nat.cast_nonneg n
    rw [pow_succ]; push_cast
    nlinarith [mul_le_mul_of_nonneg_right ih (by linarith : 0 ≤ 1 - u), mul_nonneg hn (mul_nonneg h0 h0)]

/-- Bernoulli-type: `(1 + u)^n (1 - n u) ≤ 1`, i.e. `(1 + u)^n ≤ 1 / (1 - n u)` -/
theorem one_add_pow_mul_le {u : ℚ} (h0 : 0 ≤ u) :
    ∀ n : Nat, (n : ℚ) * u ≤ 1 → (1 + u) ^ n * (1 - (n : ℚ) * u) ≤ 1
  | 0, _ => by simp
  | n + 1, h => by
    have hn : (0 : ℚ) ≤ n := Nat.cast_nonneg n
    push_cast at h
    have ih := one_add_pow_mul_le h0 n (by nlinarith)
    have hp : 0 ≤ (1 + u) ^ n := pow_nonneg (by linarith) _
    rw [pow_succ]; push_cast
    have e : (1 + u) ^ n * (1 + u) * (1 - (↑n + 1) * u)
        = (1 + u) ^ n * (1 - ↑n * u) - (1 + u) ^ n * ((↑n + 1) * (u * u)) := by ring
    rw [e]
    have : 0 ≤ (1 + u) ^ n * ((↑n + 1) * (u * u)) :=
      mul_nonneg hp (mul_nonneg (by linarith) (mul_nonneg h0 h0))
    linarith

/-- the sum bound with the powers replaced by their first-order (Bernoulli) estimates:
for at most `N` peaks with `N u < 1` -/
theorem flNormalize_sum_linear {F : FlModel} (hF : F.OK) {l : List ℚ} (hne : l ≠ [])
    (hl : ∀ x ∈ l, 0 < x) (hu : F.u < 1) {N : Nat} (hN : l.length ≤ N) (hNu : (N : ℚ) * F.u < 1) :
    (1 - F.u) ^ 2 * (1 - (N : ℚ) * F.u) ≤ (flNormalize F l).sum ∧
    (flNormalize F l).sum ≤ (1 + F.u) ^ 2 / (1 - (N : ℚ) * F.u) := by
  have h0 := hF.1
  have hs := flNormalize_sum hF hne hl hu
  have hnN : (l.length : ℚ) * F.u ≤ (N : ℚ) * F.u :=
    mul_le_mul_of_nonneg_right (by exact_mod_cast hN) h0
  have hd : 0 < 1 - (N : ℚ) * F.u := by linarith
  have hdn : 0 < 1 - (l.length : ℚ) * F.u := by linarith
  have hp1 : 0 < (1 - F.u) ^ l.length := pow_pos (by linarith) _
  have hp2 : 0 < (1 + F.u) ^ l.length := pow_pos (by linarith) _
  have hsq1 : 0 ≤ (1 - F.u) ^ 2 := sq_nonneg _
  have hsq2 : 0 ≤ (1 + F.u) ^ 2 := sq_nonneg _
  constructor
  · refine le_trans ?_ hs.1
    rw [le_div_iff₀ hp2, mul_assoc]
    apply mul_le_of_le_one_right hsq1
    have := one_add_pow_mul_le h0 l.length (by linarith)
    calc (1 - (N : ℚ) * F.u) * (1 + F.u) ^ l.length
        ≤ (1 - (l.length : ℚ) * F.u) * (1 + F.u) ^ l.length :=
          mul_le_mul_of_nonneg_right (by linarith) hp2.le
      _ = (1 + F.u) ^ l.length * (1 - (l.length : ℚ) * F.u) := mul_comm _ _
      _ ≤ 1 := this
  · refine le_trans hs.2 ?_
    apply div_le_div_of_nonneg_left hsq2 hd
    have := one_sub_pow_ge h0 hu.le l.length
    linarith

theorem flNormalize_sum_f64 {F : FlModel} (hF : F.OK) (hu : F.u = 1 / 2 ^ 53) {l : List ℚ}
    (hne : l ≠ []) (hl : ∀ x ∈ l, 0 < x) (hn : l.length ≤ 64) :
    ratAbs ((flNormalize F l).sum - 1) ≤ 1 / 10 ^ 14 := by
  have hu1 : F.u < 1 := by rw [hu]; norm_num
  have h := flNormalize_sum_linear hF hne hl hu1 hn (by rw [hu]; norm_num)
  rw [hu] at h
  have hlo : (1 : ℚ) - 1 / 10 ^ 14 ≤ (1 - 1 / 2 ^ 53) ^ 2 * (1 - ((64 : Nat) : ℚ) * (1 / 2 ^ 53)) := by
    norm_num
  have hhi : (1 + 1 / 2 ^ 53 : ℚ) ^ 2 / (1 - ((64 : Nat) : ℚ) * (1 / 2 ^ 53)) ≤ 1 + 1 / 10 ^ 14 := by
    norm_num
  rw [ratAbs_eq_abs, abs_le]
  constructor <;> linarith [h.1, h.2]

/-! ### 6. `neutral_mass (mass_charge_ratio m z c) z c` against `m` -/

theorem rnd_eq' {F : FlModel} (hF : F.OK) (x : ℚ) :
    ∃ δ : ℚ, |δ| ≤ F.u ∧ F.rnd x = x * (1 + δ) := by
  obtain ⟨δ, h, e⟩ := rnd_eq hF x
  exact ⟨δ, by rwa [ratAbs_eq_abs] at h, e⟩

/-- composing a relative error `θ` (bounded by `A`) with one more rounding -/
theorem relerr_mul {θ δ A u : ℚ} (hθ : |θ| ≤ A) (hδ : |δ| ≤ u) :
    |(1 + θ) * (1 + δ) - 1| ≤ (1 + A) * (1 + u) - 1 := by
  have e : (1 + θ) * (1 + δ) - 1 = θ + δ + θ * δ := by ring
  have hA : 0 ≤ A := le_trans (abs_nonneg _) hθ
  have hm : |θ * δ| ≤ A * u := by
    rw [abs_mul]; exact mul_le_mul hθ hδ (abs_nonneg _) hA
  have h1 := abs_add_le (θ + δ) (θ * δ)
  have h2 := abs_add_le θ δ
  rw [e]; linarith

theorem abs_one_add_le {δ u : ℚ} (hδ : |δ| ≤ u) : |1 + δ| ≤ 1 + u := by
  have := abs_add_le 1 δ
  rw [abs_one] at this; linarith

/-- The round trip, with the exact error polynomial and no smallness condition on `u`: four roundings
touch `m`; the carrier term `z c` cancels to first order (three roundings), because the two occurrences
of `rnd (z c)` are the same number. -/
theorem flNeutral_flMz_poly {F : FlModel} (hF : F.OK) (m c : ℚ) {z : Int} (hz : z ≠ 0) :
    ratAbs (flNeutral F (flMz F m z c) z c - m) ≤
      ((1 + F.u) ^ 4 - 1) * ratAbs m
        + (1 + F.u) ^ 2 * ((1 + F.u) ^ 3 - 1) * ratAbs ((z : ℚ) * c) := by
  have h0 := hF.1
  have ha : ((z.natAbs : Nat) : ℚ) ≠ 0 := Nat.cast_ne_zero.mpr (Int.natAbs_ne_zero.mpr hz)
  unfold flNeutral flMz
  set a : ℚ := ((z.natAbs : Nat) : ℚ)
  set zc : ℚ := (z : ℚ) * c
  obtain ⟨δ1, h1, e1⟩ := rnd_eq' hF zc
  set w := F.rnd zc
  obtain ⟨δ2, h2, e2⟩ := rnd_eq' hF (m + w)
  rw [e2]
  obtain ⟨δ3, h3, e3⟩ := rnd_eq' hF ((m + w) * (1 + δ2) / a)
  rw [e3]
  obtain ⟨δ4, h4, e4⟩ := rnd_eq' hF ((m + w) * (1 + δ2) / a * (1 + δ3) * a)
  rw [e4]
  obtain ⟨δ5, h5, e5⟩ := rnd_eq' hF ((m + w) * (1 + δ2) / a * (1 + δ3) * a * (1 + δ4) - w)
  rw [e5, e1, ratAbs_eq_abs, ratAbs_eq_abs, ratAbs_eq_abs]
  -- the accumulated relative errors
  have b2 := relerr_mul h2 h3
  have b3 := relerr_mul b2 h4
  have b4 := relerr_mul b3 h5
  set θ3 := (1 + ((1 + δ2) * (1 + δ3) - 1)) * (1 + δ4) - 1 with hθ3
  set E4 := (1 + θ3) * (1 + δ5) - 1 with hE4
  have b3' : |θ3| ≤ (1 + F.u) ^ 3 - 1 := by
    refine le_trans b3 (le_of_eq ?_); ring
  have b4' : |E4| ≤ (1 + F.u) ^ 4 - 1 := by
    refine le_trans b4 (le_of_eq ?_); ring
  have key : ((m + zc * (1 + δ1)) * (1 + δ2) / a * (1 + δ3) * a * (1 + δ4) - zc * (1 + δ1)) * (1 + δ5) - m
      = m * E4 + zc * ((1 + δ1) * (1 + δ5) * θ3) := by
    rw [hE4, hθ3]; field_simp; ring
  rw [key]
  have hθ0 : 0 ≤ (1 + F.u) ^ 3 - 1 := le_trans (abs_nonneg _) b3'
  have t1 : |m * E4| ≤ ((1 + F.u) ^ 4 - 1) * |m| := by
    rw [abs_mul, mul_comm]; exact mul_le_mul_of_nonneg_right b4' (abs_nonneg _)
  have t2 : |(1 + δ1) * (1 + δ5) * θ3| ≤ (1 + F.u) ^ 2 * ((1 + F.u) ^ 3 - 1) := by
    rw [abs_mul, abs_mul, pow_two]
    exact mul_le_mul (mul_le_mul (abs_one_add_le h1) (abs_one_add_le h5) (abs_nonneg _)
      (by linarith)) b3' (abs_nonneg _) (mul_nonneg (by linarith) (by linarith))
  have t3 : |zc * ((1 + δ1) * (1 + δ5) * θ3)|
      ≤ (1 + F.u) ^ 2 * ((1 + F.u) ^ 3 - 1) * |zc| := by
    rw [abs_mul, mul_comm]; exact mul_le_mul_of_nonneg_right t2 (abs_nonneg _)
  exact le_trans (abs_add_le _ _) (add_le_add t1 t3)

/-- for `u ≤ 1/8` both error polynomials are at most `5 u` -/
theorem err_poly_le {u : ℚ} (h0 : 0 ≤ u) (h8 : u ≤ 1 / 8) :
    (1 + u) ^ 4 - 1 ≤ 5 * u ∧ (1 + u) ^ 2 * ((1 + u) ^ 3 - 1) ≤ 5 * u := by
  have hu2 : u * u ≤ u * (1 / 8) := mul_le_mul_of_nonneg_left h8 h0
  have p2 : (1 + u) ^ 2 ≤ 1 + 17 / 8 * u := by nlinarith
  have p3 : (1 + u) ^ 3 ≤ 1 + 217 / 64 * u := by
    have : (1 + u) ^ 3 = (1 + u) ^ 2 * (1 + u) := by ring
    rw [this]
    nlinarith [mul_le_mul_of_nonneg_right p2 (by linarith : 0 ≤ 1 + u)]
  have p4 : (1 + u) ^ 4 ≤ 1 + 2465 / 512 * u := by
    have : (1 + u) ^ 4 = (1 + u) ^ 3 * (1 + u) := by ring
    rw [this]
    nlinarith [mul_le_mul_of_nonneg_right p3 (by linarith : 0 ≤ 1 + u)]
  refine ⟨by linarith, ?_⟩
  have hq : (1 + u) ^ 2 ≤ 81 / 64 := by nlinarith
  have h3 : 0 ≤ (1 + u) ^ 3 - 1 := by
    have : (1 : ℚ) ≤ (1 + u) ^ 3 := one_le_pow₀ (by linarith)
    linarith
  calc (1 + u) ^ 2 * ((1 + u) ^ 3 - 1) ≤ 81 / 64 * (217 / 64 * u) :=
        mul_le_mul hq (by linarith) h3 (by norm_num)
    _ ≤ 5 * u := by linarith

/-- sharpest integer constant under `u ≤ 1/8` -/
theorem flNeutral_flMz_sharp {F : FlModel} (hF : F.OK) (hu : F.u ≤ 1 / 8) (m c : ℚ) {z : Int}
    (hz : z ≠ 0) :
    ratAbs (flNeutral F (flMz F m z c) z c - m) ≤
      5 * F.u * (ratAbs m + ratAbs ((z : ℚ) * c)) := by
  have h := flNeutral_flMz_poly hF m c hz
  obtain ⟨q1, q2⟩ := err_poly_le hF.1 hu
  have n1 : 0 ≤ ratAbs m := by rw [ratAbs_eq_abs]; exact abs_nonneg _
  have n2 : 0 ≤ ratAbs ((z : ℚ) * c) := by rw [ratAbs_eq_abs]; exact abs_nonneg _
  have := mul_le_mul_of_nonneg_right q1 n1
  have := mul_le_mul_of_nonneg_right q2 n2
  linarith

/-- the bound in the stated form -/
theorem flNeutral_flMz {F : FlModel} (hF : F.OK) (hu : F.u ≤ 1 / 8) (m c : ℚ) {z : Int}
    (hz : z ≠ 0) :
    ratAbs (flNeutral F (flMz F m z c) z c - m) ≤
      8 * F.u * (ratAbs m + 2 * ratAbs ((z : ℚ) * c)) := by
  have h := flNeutral_flMz_sharp hF hu m c hz
  have h0 := hF.1
  have n1 : 0 ≤ ratAbs m := by rw [ratAbs_eq_abs]; exact abs_nonneg _
  have n2 : 0 ≤ ratAbs ((z : ℚ) * c) := by rw [ratAbs_eq_abs]; exact abs_nonneg _
  nlinarith [mul_nonneg h0 n1, mul_nonneg h0 n2]

/-! ### the hypotheses are satisfiable -/

/-- exact arithmetic is a model with `u = 0` -/
def exactModel : FlModel := ⟨fun x => x, 0⟩

example : exactModel.OK := by
  refine ⟨le_rfl, fun x => ?_⟩
  simp [exactModel, ratAbs]

/-- a model that really perturbs: every result is off by the full relative error `u = 1/8`; it
satisfies `OK` and the smallness condition `u ≤ 1/8` of `flNeutral_flMz` -/
example : (⟨fun x => x * (1 + 1 / 8), 1 / 8⟩ : FlModel).OK := by
  refine ⟨by norm_num, fun x => ?_⟩
  show ratAbs (x * (1 + 1 / 8) - x) ≤ 1 / 8 * ratAbs x
  rw [ratAbs_eq_abs, ratAbs_eq_abs]
  have : x * (1 + 1 / 8) - x = 1 / 8 * x := by ring
  rw [this, abs_mul]; norm_num

example : (flNormalize exactModel [1 / 2, 1 / 4, 1 / 4]).sum = 1 := by decide +kernel

example : flNormalize exactModel [2, 1, 1] = [1 / 2, 1 / 4, 1 / 4] := by decide +kernel

example : flNeutral exactModel (flMz exactModel 1000 (-2) (1007276 / 1000000)) (-2) (1007276 / 1000000)
    = 1000 := by decide +kernel

end Chem

