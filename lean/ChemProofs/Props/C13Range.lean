import ChemProofs.Props.C13Float
/-
The *range* side of the floating-point layer.  `FlModel.OK` is the standard model "no overflow, no underflow"; the bounds of
`Props/C13Float.lean` therefore speak about `normalize` only where every intermediate value stays inside the range of a
double.  This file says where that is: for at most 64 positive intensities whose exact total is at least 2^-1022 (the
smallest normal double) the rounded reciprocal `rnd (1 / total)` is at most 2^1023 and every normalised intensity is at most
2 — all below the largest finite double — so the model applies.  Below that line it does not: for the single peak of
intensity 2^-1051 the reciprocal the code asks for exceeds 2^1024, which no finite double represents.  That is finding D30
(DESIGN §8): the check files a disagreement under D30 exactly when the exact total of the peaks to keep is below 2^-1022.
-/
namespace Chem

/-- `rnd (1 / total)` stays in range when the exact total is at least 2^-1022 -/
theorem recip_in_range {F : FlModel} (hF : F.OK) (hu : F.u = 1 / 2 ^ 53) {l : List ℚ} (hne : l ≠ [])
    (hl : ∀ x ∈ l, 0 < x) (hn : l.length ≤ 64) (hS : 1 / 2 ^ 1022 ≤ l.sum) :
    F.rnd (1 / flSum F l) ≤ 2 ^ 1023 := by
  have hu1 : F.u < 1 := by rw [hu]; norm_num
  have h0 := hF.1
  obtain ⟨hT, _⟩ := flSum_pos hF hne hl hu1
  have hrb := (recip_bounds hF hne hl hu1).2
  refine le_trans hrb ?_
  have hpow : (1 : ℚ) - 64 * F.u ≤ (1 - F.u) ^ l.length := by
    have hb := one_sub_pow_ge h0 hu1.le l.length
    have : ((l.length : Nat) : ℚ) ≤ 64 := by exact_mod_cast hn
    nlinarith
  have hden : 0 < (1 - F.u) ^ l.length * l.sum := mul_pos (pow_pos (by linarith) _) hT
  rw [div_le_iff₀ hden]
  have h1 : (1 : ℚ) - 64 * F.u = 1 - 64 / 2 ^ 53 := by rw [hu]; ring
  have hq : (0 : ℚ) < 1 - 64 / 2 ^ 53 := by norm_num
  have hlow : (1 - 64 / 2 ^ 53 : ℚ) * (1 / 2 ^ 1022) ≤ (1 - F.u) ^ l.length * l.sum := by
    have hp : (1 - 64 / 2 ^ 53 : ℚ) ≤ (1 - F.u) ^ l.length := by rw [← h1]; exact hpow
    calc (1 - 64 / 2 ^ 53 : ℚ) * (1 / 2 ^ 1022) ≤ (1 - F.u) ^ l.length * (1 / 2 ^ 1022) :=
          mul_le_mul_of_nonneg_right hp (by positivity)
      _ ≤ (1 - F.u) ^ l.length * l.sum := mul_le_mul_of_nonneg_left hS (pow_nonneg (by linarith) _)
  have hnum : (1 : ℚ) + F.u ≤ 2 ^ 1023 * ((1 - 64 / 2 ^ 53) * (1 / 2 ^ 1022)) := by
    rw [hu]
    have e : (2 : ℚ) ^ 1023 * ((1 - 64 / 2 ^ 53) * (1 / 2 ^ 1022)) = 2 * (1 - 64 / 2 ^ 53) := by
      have : (2 : ℚ) ^ 1023 = 2 * 2 ^ 1022 := by rw [pow_succ]; ring
      rw [this]; field_simp
    rw [e]; norm_num
  calc (1 : ℚ) + F.u ≤ 2 ^ 1023 * ((1 - 64 / 2 ^ 53) * (1 / 2 ^ 1022)) := hnum
    _ ≤ 2 ^ 1023 * ((1 - F.u) ^ l.length * l.sum) := mul_le_mul_of_nonneg_left hlow (by positivity)

/-- every normalised intensity is at most 2 (whatever the magnitude of the inputs) -/
theorem flNormalize_entry_le_two {F : FlModel} (hF : F.OK) (hu : F.u = 1 / 2 ^ 53) {l : List ℚ} (hne : l ≠ [])
    (hl : ∀ x ∈ l, 0 < x) (hn : l.length ≤ 64) {i : Nat} {x y : ℚ}
    (hx : l[i]? = some x) (hy : (flNormalize F l)[i]? = some y) : 0 ≤ y ∧ y ≤ 2 := by
  have hu1 : F.u < 1 := by rw [hu]; norm_num
  have h0 := hF.1
  obtain ⟨hT, _⟩ := flSum_pos hF hne hl hu1
  have hb := flNormalize_entry hF hne hl hu1 hx hy
  have hxp : 0 < x := hl x (List.mem_of_getElem? hx)
  have hxS : x ≤ l.sum := by
    have hm : x ∈ l := List.mem_of_getElem? hx
    exact List.single_le_sum (fun y hy => (hl y hy).le) x hm
  have hfrac0 : 0 ≤ x / l.sum := by positivity
  have hfrac1 : x / l.sum ≤ 1 := by rw [div_le_one hT]; exact hxS
  have hpow : (1 : ℚ) - 64 * F.u ≤ (1 - F.u) ^ l.length := by
    have hb' := one_sub_pow_ge h0 hu1.le l.length
    have : ((l.length : Nat) : ℚ) ≤ 64 := by exact_mod_cast hn
    nlinarith
  have hp1 : 0 < (1 - F.u) ^ l.length := pow_pos (by linarith) _
  have hp2 : 0 < (1 + F.u) ^ l.length := pow_pos (by linarith) _
  constructor
  · refine le_trans ?_ hb.1
    have : 0 ≤ (1 - F.u) ^ 2 / (1 + F.u) ^ l.length := by positivity
    exact mul_nonneg this hfrac0
  · refine le_trans hb.2 ?_
    have hc : (1 + F.u) ^ 2 / (1 - F.u) ^ l.length ≤ 2 := by
      rw [div_le_iff₀ hp1]
      have h1 : (1 + F.u) ^ 2 ≤ 2 * (1 - 64 * F.u) := by rw [hu]; norm_num
      nlinarith
    have hc0 : 0 ≤ (1 + F.u) ^ 2 / (1 - F.u) ^ l.length := by positivity
    calc (1 + F.u) ^ 2 / (1 - F.u) ^ l.length * (x / l.sum)
        ≤ (1 + F.u) ^ 2 / (1 - F.u) ^ l.length * 1 := mul_le_mul_of_nonneg_left hfrac1 hc0
      _ ≤ 2 := by rw [mul_one]; exact hc

/-- D30, the other side of the line: for the single peak of intensity 2^-1051 the reciprocal that `normalize` computes is
    beyond 2^1024 in every model of rounding — no finite double represents it -/
theorem recip_overflows {F : FlModel} (hF : F.OK) (hu : F.u ≤ 1 / 2) :
    (2 : ℚ) ^ 1024 < 1 / flSum F [1 / 2 ^ 1051] := by
  have h0 := hF.1
  have hx : (0 : ℚ) < 1 / 2 ^ 1051 := by positivity
  have hs : flSum F [1 / 2 ^ 1051] = F.rnd (1 / 2 ^ 1051) := by simp [flSum]
  have hb := rnd_bounds hF hx.le
  have hpos : 0 < F.rnd (1 / 2 ^ 1051) := rnd_pos hF (by linarith) hx
  rw [hs, lt_div_iff₀ hpos]
  have hle : F.rnd (1 / 2 ^ 1051) ≤ (3 / 2) * (1 / 2 ^ 1051) := by
    refine le_trans hb.2 ?_
    exact mul_le_mul_of_nonneg_right (by linarith) hx.le
  have e : (2 : ℚ) ^ 1024 * ((3 / 2) * (1 / 2 ^ 1051)) < 1 := by
    have : (2 : ℚ) ^ 1051 = 2 ^ 1024 * 2 ^ 27 := by rw [← pow_add]
    rw [this]; field_simp; norm_num
  calc (2 : ℚ) ^ 1024 * F.rnd (1 / 2 ^ 1051) ≤ 2 ^ 1024 * ((3 / 2) * (1 / 2 ^ 1051)) :=
        mul_le_mul_of_nonneg_left hle (by positivity)
    _ < 1 := e

/-- non-vacuity: the premises of the three theorems are satisfiable together — exact arithmetic with `u = 2^-53` is a model of
    rounding, and `[1/2, 1/4]` is a list of at most 64 positive intensities whose total is at least 2^-1022 -/
example : (⟨id, 1 / 2 ^ 53⟩ : FlModel).OK ∧ (⟨id, 1 / 2 ^ 53⟩ : FlModel).u = 1 / 2 ^ 53 ∧
    ([1 / 2, 1 / 4] : List ℚ) ≠ [] ∧ (∀ x ∈ ([1 / 2, 1 / 4] : List ℚ), 0 < x) ∧ ([1 / 2, 1 / 4] : List ℚ).length ≤ 64 := by
  refine ⟨⟨by norm_num, fun x => ?_⟩, rfl, by simp, ?_, by simp⟩
  · simp only [id, sub_self, ratAbs_eq_abs, abs_zero]
    positivity
  · intro x hx
    simp at hx
    rcases hx with rfl | rfl <;> norm_num

end Chem