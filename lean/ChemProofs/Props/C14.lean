import ChemProofs.Props.C13
/-
C14 — derived pattern operations agree with their step-wise definitions (exact arithmetic).
-/
namespace Chem
open Pattern

/-! ### clone_drop_last, slice_normalized -/

/-- `clone_drop_last` is the pattern without its last peak, renormalised -/
theorem dropLast_eq_spec (p : Pattern) : p.cloneDropLast = Spec.dropLast p := rfl

/-- `slice_normalized(a..b)` is the requested sub-range renormalised; an invalid range is the
    slice-index panic of the real code -/
theorem slice_eq_spec (p : Pattern) (a b : Nat) :
    (a ≤ b ∧ b ≤ p.peaks.length → p.sliceNormalized a b = .ok (Spec.slice p a b)) ∧
    (¬ (a ≤ b ∧ b ≤ p.peaks.length) → p.sliceNormalized a b = .error ()) := by
  unfold Pattern.sliceNormalized Spec.slice
  constructor <;> intro h <;> simp [h]

/-! ### equality -/

theorem peak_eqv_iff (tol : Rat) (a b : Peak) :
    Peak.eqv tol a b = (decide (ratAbs (a.mz - b.mz) ≤ tol) && decide (ratAbs (a.int - b.int) ≤ tol)) := by
  unfold Peak.eqv
  by_cases h1 : tol < ratAbs (a.mz - b.mz) <;> by_cases h2 : tol < ratAbs (a.int - b.int) <;>
    simp [h1, h2, not_le.2, not_lt.1, le_of_not_gt] <;> first | exact not_le.2 ‹_› | exact le_of_not_gt ‹_› | skip
  all_goals (intro; exact not_le.2 ‹_›)

theorem zipAll_eq (tol : Rat) (l1 l2 : List Peak) (hlen : l1.length = l2.length) :
    zipAll (Peak.eqv tol) l1 l2 = (List.range l1.length).all (fun i =>
      match l1[i]?, l2[i]? with
      | some x, some y => decide (ratAbs (x.mz - y.mz) ≤ tol) && decide (ratAbs (x.int - y.int) ≤ tol)
      | _, _ => false) := by
  induction l1 generalizing l2 with
  | nil => cases l2 <;> simp [zipAll]
  | cons x xs ih =>
    cases l2 with
    | nil => simp at hlen
    | cons y ys =>
      simp only [List.length_cons, Nat.add_right_cancel_iff] at hlen
      simp only [zipAll, List.length_cons, List.range_succ_eq_map, List.all_cons, List.all_map,
        List.getElem?_cons_zero, ih ys hlen, peak_eqv_iff]
      congr 1

/-- **two patterns compare equal only if they have the same number of peaks and every pair of
    corresponding peaks agrees within the tolerance** -/
theorem eqv_eq_spec (tol : Rat) (a b : Pattern) : a.eqv tol b = Spec.patternEq tol a b := by
  unfold Pattern.eqv Spec.patternEq
  by_cases h : a.peaks.length = b.peaks.length
  · simp only [h, beq_self_eq_true, Bool.true_and]
    rw [zipAll_eq tol _ _ h, h]
    congr 1
  · have : (a.peaks.length == b.peaks.length) = false := by simpa using h
    simp [this]

theorem eqv_length (tol : Rat) (a b : Pattern) (h : a.eqv tol b = true) : a.peaks.length = b.peaks.length := by
  unfold Pattern.eqv at h
  simp only [Bool.and_eq_true, beq_iff_eq] at h
  exact h.1

/-! ### the fused truncate / filter / shift / normalise operation -/

theorem total_filter_split (l : List Peak) (P : Peak → Bool) :
    total (l.filter P) + total (l.filter (fun q => !P q)) = total l := by
  induction l with
  | nil => simp [total_nil]
  | cons x xs ih =>
    simp only [List.filter_cons]
    cases h : P x <;> simp [total_cons, ← ih] <;> ring

theorem filter_scale (l : List Peak) (c t : Rat) (hc : 0 < c) :
    (l.map (fun q => ({ q with int := q.int * (1 / c) } : Peak))).filter (fun q => decide (t ≤ q.int)) =
    (l.filter (fun q => decide (t * c ≤ q.int))).map (fun q => ({ q with int := q.int * (1 / c) } : Peak)) := by
  rw [List.filter_map]
  congr 1
  apply List.filter_congr
  intro x _
  simp only [Function.comp_def, decide_eq_decide]
  rw [mul_one_div, le_div_iff₀ hc]

/-- **the fused operation returns the same peaks as `truncate_after`, then `ignore_below`, then
    `shift`** (for a non-empty pattern with positive intensities; exact arithmetic) -/
theorem fused_eq_stepwise (p : Pattern) (t1 t2 o : Rat) (hne : p.peaks ≠ []) (hpos : ∀ x ∈ p.peaks, 0 < x.int) :
    (p.fused t1 t2 o).map (·.peaks) = Spec.stepwise p t1 t2 o := by
  -- the truncated prefix
  have hsub : ∀ x ∈ Spec.prefixReaching t1 p.peaks, x ∈ p.peaks := by
    intro x hx
    unfold Spec.prefixReaching at hx
    split at hx
    · exact List.mem_of_mem_take hx
    · exact hx
  have hne' : Spec.prefixReaching t1 p.peaks ≠ [] := by
    unfold Spec.prefixReaching
    split
    · cases hp : p.peaks with
      | nil => exact absurd hp hne
      | cons x xs => simp
    · exact hne
  have hpos' : ∀ x ∈ Spec.prefixReaching t1 p.peaks, 0 < x.int := fun x hx => hpos x (hsub x hx)
  have htot : 0 < total (Spec.prefixReaching t1 p.peaks) := total_pos _ hne' hpos'
  obtain ⟨hpre, hacc⟩ := stopLoop_prefix t1 p.peaks
  generalize hpr : Spec.prefixReaching t1 p.peaks = pre at *
  generalize htt : total pre = tot at *
  -- unfold both sides
  unfold Pattern.fused
  cases hst : Pattern.stopLoop t1 p.peaks 0 0 with
  | mk s tt =>
    rw [hst] at hpre hacc
    simp only at hpre hacc
    simp only [hpre, hacc]
    unfold Spec.stepwise Spec.truncateAfter
    rw [hpr, normalize_some ⟨pre, p.origin⟩ hne' (by rw [htt]; exact htot.ne')]
    simp only [htt]
    unfold Spec.ignoreBelow
    simp only [Pattern.scaleBy]
    rw [filter_scale pre tot t2 htot]
    -- kept / dropped
    generalize hk : pre.filter (fun q => decide (t2 * tot ≤ q.int)) = kept
    have hsplit := total_filter_split pre (fun q => decide (t2 * tot ≤ q.int))
    rw [hk, htt] at hsplit
    have hkpos : ∀ x ∈ kept, 0 < x.int := by
      intro x hx
      rw [← hk] at hx
      exact hpos' x (List.mem_of_mem_filter hx)
    cases hke : kept with
    | nil =>
      simp [Pattern.normalize, Pattern.shift]
    | cons k0 ks =>
      have hkne : kept ≠ [] := by rw [hke]; simp
      have htk : 0 < total kept := total_pos kept hkne hkpos
      have htot' : tot - total (pre.filter (fun q => !decide (t2 * tot ≤ q.int))) = total kept := by
        linarith
      rw [← hke]
      have hmapne : (kept.map (fun q => ({ q with int := q.int * (1 / tot) } : Peak))) ≠ [] := by
        simpa using hkne
      have hmt : total (kept.map (fun q => ({ q with int := q.int * (1 / tot) } : Peak))) = total kept * (1 / tot) :=
        total_scale kept (1 / tot)
      have hmt0 : total kept * (1 / tot) ≠ 0 := (mul_pos htk (one_div_pos.2 htot)).ne'
      rw [normalize_some ⟨_, p.origin⟩ hmapne (by rw [hmt]; exact hmt0)]
      have hkemp : kept.isEmpty = false := by cases kept <;> simp_all
      simp only [hkemp, htot', htk.ne', if_false, Bool.false_eq_true, Option.map_some, Pattern.scaleBy,
        Pattern.shift, hmt, List.map_map, Function.comp_def]
      congr 1
      apply List.map_congr_left
      intro x _
      congr 1
      field_simp

/-! ### incremental truncation -/

theorem prefixSums_getD (xs : List Rat) (acc : Rat) (i : Nat) (hi : i < xs.length) :
    (Pattern.prefixSums xs acc).getD i 0 = acc + (xs.take (i + 1)).sum := by
  induction xs generalizing acc i with
  | nil => simp at hi
  | cons x rest ih =>
    cases i with
    | zero => simp [Pattern.prefixSums]
    | succ j =>
      simp only [List.length_cons, Nat.add_lt_add_iff_right] at hi
      simp only [Pattern.prefixSums, List.getD_cons_succ, List.take_succ_cons, List.sum_cons]
      rw [ih (acc + x) j hi]
      ring

theorem incrCollect_eq (tp : Pattern) (t : Rat) (k : Nat) (hk : k ≤ tp.peaks.length) (fuel : Nat) (hf : k ≤ fuel) :
    Pattern.incrCollect fuel
      { template := tp, threshold := t, index := k - 1,
        cumulative := Pattern.prefixSums (intensities tp.peaks) 0 } =
    Spec.incrFrom tp.peaks tp.origin t k := by
  induction k generalizing fuel with
  | zero =>
    cases fuel with
    | zero => rfl
    | succ f => simp [Pattern.incrCollect, Pattern.IncrIter.next, Spec.incrFrom]
  | succ k ih =>
    cases fuel with
    | zero => omega
    | succ f =>
      have hcum : (Pattern.prefixSums (intensities tp.peaks) 0).getD k 0 = total (tp.peaks.take (k + 1)) := by
        rw [prefixSums_getD _ _ _ (by simp only [intensities, List.length_map]; omega)]
        simp [total, intensities, List.map_take]
      simp only [Pattern.incrCollect, Pattern.IncrIter.next, Spec.incrFrom, Nat.add_sub_cancel, hcum]
      by_cases hc : 0 < k ∧ t < total (tp.peaks.take (k + 1))
      · have hc' : 2 ≤ k + 1 ∧ t < total (tp.peaks.take (k + 1)) := ⟨by omega, hc.2⟩
        have hslice : tp.sliceNormalized 0 (k + 1) = .ok (Pattern.normalize { peaks := tp.peaks.take (k + 1), origin := tp.origin }) := by
          unfold Pattern.sliceNormalized
          simp [hk]
        simp only [hc, hc', and_self, if_true, hslice]
        congr 1
        exact ih (by omega) f (by omega)
      · have hc' : ¬ (2 ≤ k + 1 ∧ t < total (tp.peaks.take (k + 1))) := by
          intro h; exact hc ⟨by omega, h.2⟩
        simp only [hc, hc', if_false]

/-- **`incremental_truncation(t)` yields the normalised pattern and then each successively
    shorter prefix, renormalised, for as long as the prefix still covers more than `t` of the
    normalised signal and has at least two peaks** -/
theorem incr_eq_spec (p : Pattern) (t : Rat) : p.incrementalTruncation t = Spec.incremental p t := by
  unfold Pattern.incrementalTruncation Spec.incremental
  cases p.normalize with
  | none => rfl
  | some tp =>
    simp only [Pattern.IncrIter.new]
    rw [incrCollect_eq tp t tp.peaks.length (Nat.le_refl _) _ (Nat.le_succ _)]

/-- non-vacuity and the witness of the repaired defect D21 (zip-only equality) -/
example : (demo.eqv (1/1000) ⟨demo.peaks.take 2, 100⟩, zipAll (Peak.eqv (1/1000)) demo.peaks (demo.peaks.take 2)) = (false, true) := by
  decide +kernel

/-- witness of D19 / D20 on the repaired model: drop-last drops, the fused form keeps two peaks -/
example : (demo.cloneDropLast.map (·.peaks.length), (demo.fused (7/10) (3/10) 5).map (·.peaks.length),
    (Spec.stepwise demo (7/10) (3/10) 5).map (·.length)) = (some 3, some 2, some 2) := by decide +kernel

end Chem
