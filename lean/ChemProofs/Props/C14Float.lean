import ChemProofs.Props.C13Float
/-
Floating-point corollaries (standard model, `Model/Float.lean`) for the derived pattern operations of C14
(src/isotopic_pattern/peak.rs): `clone_drop_last`, `slice_normalized`, `truncate_after`, `ignore_below` are list
surgery followed by the same `normalize`; the fused `truncate_after_ignore_below_shift_normalize` divides the
survivors by a *running* total (accumulated over the prefix, then decremented by every filtered-out peak).
-/
namespace Chem

/-! ### 1. list surgery followed by `normalize` -/

/-- `clone_drop_last` -/
def flDropLast (F : FlModel) (l : List ℚ) : List ℚ := flNormalize F l.dropLast
/-- `slice_normalized(a..b)` -/
def flSlice (F : FlModel) (l : List ℚ) (a b : Nat) : List ℚ := flNormalize F ((l.drop a).take (b - a))
/-- `truncate_after`: the first `k = stop_index + 1` peaks -/
def flPrefix (F : FlModel) (l : List ℚ) (k : Nat) : List ℚ := flNormalize F (l.take k)
/-- `ignore_below`: the peaks satisfying `p` -/
def flFilter (F : FlModel) (l : List ℚ) (p : ℚ → Bool) : List ℚ := flNormalize F (l.filter p)

theorem flDropLast_sum_f64 {F : FlModel} (hF : F.OK) (hu : F.u = 1 / 2 ^ 53) {l : List ℚ}
    (hl : ∀ x ∈ l, 0 < x) (hne : l.dropLast ≠ []) (hn : l.dropLast.length ≤ 64) :
    ratAbs ((flDropLast F l).sum - 1) ≤ 1 / 10 ^ 14 :=
  flNormalize_sum_f64 hF hu hne (fun x hx => hl x (List.mem_of_mem_dropLast hx)) hn

theorem flSlice_sum_f64 {F : FlModel} (hF : F.OK) (hu : F.u = 1 / 2 ^ 53) {l : List ℚ} {a b : Nat}
    (hl : ∀ x ∈ l, 0 < x) (hne : (l.drop a).take (b - a) ≠ [])
    (hn : ((l.drop a).take (b - a)).length ≤ 64) :
    ratAbs ((flSlice F l a b).sum - 1) ≤ 1 / 10 ^ 14 :=
  flNormalize_sum_f64 hF hu hne
    (fun x hx => hl x (List.mem_of_mem_drop (List.mem_of_mem_take hx))) hn

theorem flPrefix_sum_f64 {F : FlModel} (hF : F.OK) (hu : F.u = 1 / 2 ^ 53) {l : List ℚ} {k : Nat}
    (hl : ∀ x ∈ l, 0 < x) (hne : l.take k ≠ []) (hn : (l.take k).length ≤ 64) :
    ratAbs ((flPrefix F l k).sum - 1) ≤ 1 / 10 ^ 14 :=
  flNormalize_sum_f64 hF hu hne (fun x hx => hl x (List.mem_of_mem_take hx)) hn

theorem flFilter_sum_f64 {F : FlModel} (hF : F.OK) (hu : F.u = 1 / 2 ^ 53) {l : List ℚ} {p : ℚ → Bool}
    (hl : ∀ x ∈ l, 0 < x) (hne : l.filter p ≠ []) (hn : (l.filter p).length ≤ 64) :
    ratAbs ((flFilter F l p).sum - 1) ≤ 1 / 10 ^ 14 :=
  flNormalize_sum_f64 hF hu hne (fun x hx => hl x (List.mem_of_mem_filter hx)) hn

/-- ratios inside the retained list are preserved up to `(1 + u) / (1 - u)`; indices refer to the retained list -/
theorem flDropLast_ratio {F : FlModel} (hF : F.OK) (hu : F.u < 1) {l : List ℚ}
    (hl : ∀ x ∈ l, 0 < x) (hne : l.dropLast ≠ []) {i j : Nat} {xi xj yi yj : ℚ}
    (hxi : l.dropLast[i]? = some xi) (hyi : (flDropLast F l)[i]? = some yi)
    (hxj : l.dropLast[j]? = some xj) (hyj : (flDropLast F l)[j]? = some yj) :
    yi * xj * (1 - F.u) ≤ yj * xi * (1 + F.u) :=
  flNormalize_ratio hF hne (fun x hx => hl x (List.mem_of_mem_dropLast hx)) hu hxi hyi hxj hyj

theorem flSlice_ratio {F : FlModel} (hF : F.OK) (hu : F.u < 1) {l : List ℚ} {a b : Nat}
    (hl : ∀ x ∈ l, 0 < x) (hne : (l.drop a).take (b - a) ≠ []) {i j : Nat} {xi xj yi yj : ℚ}
    (hxi : ((l.drop a).take (b - a))[i]? = some xi) (hyi : (flSlice F l a b)[i]? = some yi)
    (hxj : ((l.drop a).take (b - a))[j]? = some xj) (hyj : (flSlice F l a b)[j]? = some yj) :
    yi * xj * (1 - F.u) ≤ yj * xi * (1 + F.u) :=
  flNormalize_ratio hF hne
    (fun x hx => hl x (List.mem_of_mem_drop (List.mem_of_mem_take hx))) hu hxi hyi hxj hyj

theorem flPrefix_ratio {F : FlModel} (hF : F.OK) (hu : F.u < 1) {l : List ℚ} {k : Nat}
    (hl : ∀ x ∈ l, 0 < x) (hne : l.take k ≠ []) {i j : Nat} {xi xj yi yj : ℚ}
    (hxi : (l.take k)[i]? = some xi) (hyi : (flPrefix F l k)[i]? = some yi)
    (hxj : (l.take k)[j]? = some xj) (hyj : (flPrefix F l k)[j]? = some yj) :
    yi * xj * (1 - F.u) ≤ yj * xi * (1 + F.u) :=
  flNormalize_ratio hF hne (fun x hx => hl x (List.mem_of_mem_take hx)) hu hxi hyi hxj hyj

theorem flFilter_ratio {F : FlModel} (hF : F.OK) (hu : F.u < 1) {l : List ℚ} {p : ℚ → Bool}
    (hl : ∀ x ∈ l, 0 < x) (hne : l.filter p ≠ []) {i j : Nat} {xi xj yi yj : ℚ}
    (hxi : (l.filter p)[i]? = some xi) (hyi : (flFilter F l p)[i]? = some yi)
    (hxj : (l.filter p)[j]? = some xj) (hyj : (flFilter F l p)[j]? = some yj) :
    yi * xj * (1 - F.u) ≤ yj * xi * (1 + F.u) :=
  flNormalize_ratio hF hne (fun x hx => hl x (List.mem_of_mem_filter hx)) hu hxi hyi hxj hyj

/-! ### 2. the fused operation -/

/-- the divisor of the fused operation: `total += p.intensity` over the prefix, then `total -= p.intensity`
for each filtered-out peak, in order -/
def flFusedTotal (F : FlModel) (pre dropped : List ℚ) : ℚ :=
  dropped.foldl (fun acc x => F.rnd (acc - x)) (flSum F pre)

/-- `truncate_after_ignore_below_shift_normalize` on the intensities: prefix of length `k`, keep the peaks
satisfying `p`, `peak.intensity /= total` with the running total -/
def flFused (F : FlModel) (l : List ℚ) (k : Nat) (p : ℚ → Bool) : List ℚ :=
  let pre := l.take k
  let T := flFusedTotal F pre (pre.filter fun x => !p x)
  (pre.filter p).map fun x => F.rnd (x / T)

/-- absolute error of a rounded left-to-right sum of *signed* terms -/
theorem foldl_abs_err {F : FlModel} (hF : F.OK) :
    ∀ (l : List ℚ) (acc : ℚ),
      |l.foldl (fun acc x => F.rnd (acc + x)) acc - (acc + l.sum)|
        ≤ ((1 + F.u) ^ l.length - 1) * (|acc| + (l.map fun x => |x|).sum)
  | [], acc => by simp
  | x :: l, acc => by
    have h0 := hF.1
    obtain ⟨δ, hδ, e⟩ := rnd_eq' hF (acc + x)
    have ih := foldl_abs_err hF l (F.rnd (acc + x))
    simp only [List.foldl_cons, List.length_cons, List.sum_cons, List.map_cons, pow_succ]
    set a' := F.rnd (acc + x) with ha'
    set P := (1 + F.u) ^ l.length with hP
    set A := (l.map fun x => |x|).sum with hA
    set R := l.foldl (fun acc x => F.rnd (acc + x)) a'
    have hP1 : 1 ≤ P := one_le_pow₀ (by linarith)
    have hA0 : 0 ≤ A := List.sum_nonneg (by
      intro y hy
      obtain ⟨z, _, rfl⟩ := List.mem_map.mp hy
      exact abs_nonneg z)
    have hB : |acc + x| ≤ |acc| + |x| := abs_add_le _ _
    have hB0 : 0 ≤ |acc| + |x| := by positivity
    have h1 : |a' - (acc + x)| ≤ F.u * (|acc| + |x|) :=
      le_trans (rnd_abs hF _) (mul_le_mul_of_nonneg_left hB h0)
    have h2 : |a'| ≤ (1 + F.u) * (|acc| + |x|) := by
      have : |a'| ≤ |a' - (acc + x)| + |acc + x| := by
        have := abs_add_le (a' - (acc + x)) (acc + x)
        simpa using this
      linarith
    have h3 : |R - (acc + (x + l.sum))| ≤ |R - (a' + l.sum)| + |a' - (acc + x)| := by
      have := abs_add_le (R - (a' + l.sum)) (a' - (acc + x))
      have e : R - (a' + l.sum) + (a' - (acc + x)) = R - (acc + (x + l.sum)) := by ring
      rwa [e] at this
    have h4 : (P - 1) * (|a'| + A) ≤ (P - 1) * ((1 + F.u) * (|acc| + |x|) + A) :=
      mul_le_mul_of_nonneg_left (by linarith) (by linarith)
    have h5 : 0 ≤ P * F.u * A := mul_nonneg (mul_nonneg (by linarith) h0) hA0
    calc |R - (acc + (x + l.sum))| ≤ (P - 1) * ((1 + F.u) * (|acc| + |x|) + A) + F.u * (|acc| + |x|) := by
          linarith
      _ ≤ (P * (1 + F.u) - 1) * (|acc| + (|x| + A)) := by nlinarith

theorem sum_map_abs_of_nonneg : ∀ (l : List ℚ), (∀ x ∈ l, 0 ≤ x) → (l.map fun x => |x|).sum = l.sum
  | [], _ => rfl
  | x :: l, h => by
    simp only [List.map_cons, List.sum_cons]
    rw [sum_map_abs_of_nonneg l fun y hy => h y (List.mem_cons_of_mem _ hy),
      abs_of_nonneg (h x (List.mem_cons_self ..))]

theorem sum_map_neg : ∀ (l : List ℚ), (l.map fun x => -x).sum = -l.sum
  | [] => by simp
  | x :: l => by simp only [List.map_cons, List.sum_cons, sum_map_neg l]; ring

/-- the running total is one rounded signed sum over `pre ++ (-dropped)` -/
theorem flFusedTotal_eq (F : FlModel) (pre dropped : List ℚ) :
    flFusedTotal F pre dropped
      = (pre ++ dropped.map fun x => -x).foldl (fun acc x => F.rnd (acc + x)) 0 := by
  unfold flFusedTotal flSum
  rw [List.foldl_append, List.foldl_map]
  simp only [sub_eq_add_neg]

/-- **the divisor of the fused operation**: absolute error against the exact `Σ pre - Σ dropped` -/
theorem flFusedTotal_err {F : FlModel} (hF : F.OK) {pre dropped : List ℚ}
    (hpre : ∀ x ∈ pre, 0 ≤ x) (hd : ∀ x ∈ dropped, 0 ≤ x) :
    |flFusedTotal F pre dropped - (pre.sum - dropped.sum)|
      ≤ ((1 + F.u) ^ (pre.length + dropped.length) - 1) * (pre.sum + dropped.sum) := by
  have h := foldl_abs_err hF (pre ++ dropped.map fun x => -x) 0
  rw [← flFusedTotal_eq] at h
  have e1 : (pre ++ dropped.map fun x => -x).sum = pre.sum - dropped.sum := by
    rw [List.sum_append, sum_map_neg]; ring
  have e2 : ((pre ++ dropped.map fun x => -x).map fun x => |x|).sum = pre.sum + dropped.sum := by
    rw [List.map_append, List.sum_append, List.map_map, sum_map_abs_of_nonneg pre hpre]
    congr 1
    have : ((fun x : ℚ => |x|) ∘ fun x => -x) = fun x => |x| := by
      funext x; simp
    rw [this, sum_map_abs_of_nonneg dropped hd]
  rw [e1, e2] at h
  simpa using h

/-- in terms of the prefix total only, when the dropped mass does not exceed it -/
theorem flFusedTotal_err_pre {F : FlModel} (hF : F.OK) {pre dropped : List ℚ}
    (hpre : ∀ x ∈ pre, 0 ≤ x) (hd : ∀ x ∈ dropped, 0 ≤ x) (hle : dropped.sum ≤ pre.sum) :
    |flFusedTotal F pre dropped - (pre.sum - dropped.sum)|
      ≤ 2 * ((1 + F.u) ^ (pre.length + dropped.length) - 1) * pre.sum := by
  refine le_trans (flFusedTotal_err hF hpre hd) ?_
  have h0 := hF.1
  have hε0 : 0 ≤ (1 + F.u) ^ (pre.length + dropped.length) - 1 := by
    have : (1 : ℚ) ≤ (1 + F.u) ^ (pre.length + dropped.length) := one_le_pow₀ (by linarith)
    linarith
  have := mul_le_mul_of_nonneg_left (by linarith : pre.sum + dropped.sum ≤ 2 * pre.sum) hε0
  linarith

/-- exact bookkeeping: survivors and filtered-out peaks partition the prefix -/
theorem sum_filter_add_sum_filter_not (p : ℚ → Bool) :
    ∀ l : List ℚ, (l.filter p).sum + (l.filter fun x => !p x).sum = l.sum
  | [] => by simp
  | x :: l => by
    have ih := sum_filter_add_sum_filter_not p l
    cases hp : p x <;> simp [hp] <;> linarith

/-- **the fused operation, generic model.**  `ρ` is a lower bound on the fraction of the prefix carried by the
survivors; `η = ((1+u)^(n+m) - 1) (2 - ρ) / ρ` is the relative error of the divisor (`n` prefix peaks, `m` filtered
out): cancellation amplifies the accumulated rounding by `1 / ρ`. -/
theorem flFused_sum {F : FlModel} (hF : F.OK) (hu : F.u < 1) {l : List ℚ} {k : Nat} {p : ℚ → Bool}
    (hl : ∀ x ∈ l, 0 < x) (hne : (l.take k).filter p ≠ []) {ρ : ℚ} (hρ0 : 0 < ρ)
    (hρ : ρ * (l.take k).sum ≤ ((l.take k).filter p).sum)
    (hη : ((1 + F.u) ^ ((l.take k).length + ((l.take k).filter fun x => !p x).length) - 1) * (2 - ρ) / ρ < 1) :
    (1 - F.u) / (1 + ((1 + F.u) ^ ((l.take k).length + ((l.take k).filter fun x => !p x).length) - 1)
        * (2 - ρ) / ρ) ≤ (flFused F l k p).sum ∧
    (flFused F l k p).sum ≤
      (1 + F.u) / (1 - ((1 + F.u) ^ ((l.take k).length + ((l.take k).filter fun x => !p x).length) - 1)
        * (2 - ρ) / ρ) := by
  have h0 := hF.1
  unfold flFused
  simp only []
  set pre := l.take k with hpre
  set kept := pre.filter p with hkept
  set dropped := pre.filter (fun x => !p x) with hdropped
  set ε := (1 + F.u) ^ (pre.length + dropped.length) - 1 with hε
  set T := flFusedTotal F pre dropped with hT
  have hpos_pre : ∀ x ∈ pre, 0 < x := fun x hx => hl x (List.mem_of_mem_take hx)
  have hpos_kept : ∀ x ∈ kept, 0 ≤ x := fun x hx => (hpos_pre x (List.mem_of_mem_filter hx)).le
  have hpos_dr : ∀ x ∈ dropped, 0 ≤ x := fun x hx => (hpos_pre x (List.mem_of_mem_filter hx)).le
  have hpart : kept.sum + dropped.sum = pre.sum := sum_filter_add_sum_filter_not p pre
  have hS0 : 0 ≤ pre.sum := List.sum_nonneg fun x hx => (hpos_pre x hx).le
  have hD0 : 0 ≤ dropped.sum := List.sum_nonneg hpos_dr
  have hε0 : 0 ≤ ε := by
    have : (1 : ℚ) ≤ (1 + F.u) ^ (pre.length + dropped.length) := one_le_pow₀ (by linarith)
    linarith
  have herr := flFusedTotal_err hF (fun x hx => (hpos_pre x hx).le) hpos_dr
  rw [← hT, ← hε, abs_le] at herr
  have hSpos : 0 < kept.sum :=
    (flSum_pos hF hne (fun x hx => hpos_pre x (List.mem_of_mem_filter hx)) hu).1
  set S := kept.sum with hS
  have hρ1 : ρ ≤ 1 := by
    by_contra hc
    rw [not_le] at hc
    nlinarith
  have hbound : ρ * (pre.sum + dropped.sum) ≤ (2 - ρ) * S := by
    have : dropped.sum = pre.sum - S := by linarith
    rw [this]
    nlinarith
  set η := ε * (2 - ρ) / ρ with hηdef
  have hη0 : 0 ≤ η := by
    rw [hηdef]; exact div_nonneg (mul_nonneg hε0 (by linarith)) hρ0.le
  have hεb : ε * (pre.sum + dropped.sum) ≤ η * S := by
    have : η * S = ε * ((2 - ρ) * S) / ρ := by rw [hηdef]; ring
    rw [this, le_div_iff₀ hρ0]
    calc ε * (pre.sum + dropped.sum) * ρ = ε * (ρ * (pre.sum + dropped.sum)) := by ring
      _ ≤ ε * ((2 - ρ) * S) := mul_le_mul_of_nonneg_left hbound hε0
  have hTlo : (1 - η) * S ≤ T := by linarith [herr.1]
  have hThi : T ≤ (1 + η) * S := by linarith [herr.2]
  have hTpos : 0 < T := lt_of_lt_of_le (mul_pos (by linarith) hSpos) hTlo
  have hs := sum_map_rnd_bounds hF (r := T⁻¹) (inv_nonneg.mpr hTpos.le) kept hpos_kept
  simp only [← div_eq_mul_inv] at hs
  constructor
  · refine le_trans ?_ hs.1
    rw [div_eq_mul_one_div]
    apply mul_le_mul_of_nonneg_left _ (by linarith)
    rw [div_le_div_iff₀ (by linarith) hTpos]
    linarith
  · refine le_trans hs.2 ?_
    rw [div_eq_mul_one_div (1 + F.u)]
    apply mul_le_mul_of_nonneg_left _ (by linarith)
    rw [div_le_div_iff₀ hTpos (by linarith)]
    linarith

/-- `(1 + 2^-53)^N - 1 ≤ 1.425e-14` for `N ≤ 128` -/
theorem pow_sub_one_le_f64 {u : ℚ} (hu : u = 1 / 2 ^ 53) {N : Nat} (hN : N ≤ 128) :
    (1 + u) ^ N - 1 ≤ 1425 / 10 ^ 17 := by
  have h0 : 0 ≤ u := by rw [hu]; positivity
  have hpow : (1 + u) ^ N ≤ (1 + u) ^ 128 := pow_le_pow_right₀ (by linarith) hN
  have hb := one_add_pow_mul_le h0 128 (by rw [hu]; norm_num)
  have hd : (0 : ℚ) < 1 - ((128 : Nat) : ℚ) * u := by rw [hu]; norm_num
  have hd' : 1 / (1 - ((128 : Nat) : ℚ) * u) ≤ 1 + 1425 / 10 ^ 17 := by rw [hu]; norm_num
  generalize (1 + u) ^ 128 = P at hpow hb
  generalize (1 + u) ^ N = Q at hpow ⊢
  have h128 : P ≤ 1 / (1 - ((128 : Nat) : ℚ) * u) := by
    rw [le_div_iff₀ hd]; exact hb
  generalize 1 / (1 - ((128 : Nat) : ℚ) * u) = R at h128 hd'
  linarith

/-- the arithmetic of the last step, isolated -/
theorem fused_num {u η t s : ℚ} (ht1 : 1 ≤ t) (hη0 : 0 ≤ η) (hut : u ≤ 12 / 10 ^ 17 * t)
    (hηle : η ≤ 285 / 10 ^ 16 * t) (hηc : η ≤ 285 / 10 ^ 4)
    (hlo : (1 - u) / (1 + η) ≤ s) (hhi : s ≤ (1 + u) / (1 - η)) :
    |s - 1| ≤ 3 / 10 ^ 14 * t := by
  have ht0 : 0 ≤ t := by linarith
  have hηt : η * t ≤ 285 / 10 ^ 4 * t := mul_le_mul_of_nonneg_right hηc ht0
  have hηt0 : 0 ≤ η * t := mul_nonneg hη0 ht0
  rw [abs_le]
  constructor
  · have : 1 - 3 / 10 ^ 14 * t ≤ (1 - u) / (1 + η) := by
      rw [le_div_iff₀ (by linarith)]
      have e : (1 - 3 / 10 ^ 14 * t) * (1 + η) = 1 + η - 3 / 10 ^ 14 * t - 3 / 10 ^ 14 * (η * t) := by ring
      rw [e]; linarith
    linarith
  · have : (1 + u) / (1 - η) ≤ 1 + 3 / 10 ^ 14 * t := by
      rw [div_le_iff₀ (by linarith)]
      have e : (1 + 3 / 10 ^ 14 * t) * (1 - η) = 1 - η + 3 / 10 ^ 14 * t - 3 / 10 ^ 14 * (η * t) := by ring
      rw [e]; linarith
    linarith

/-- **the fused operation in binary64**, at most 64 prefix peaks, survivors carrying at least the fraction
`ρ ≥ 10^-12` of the prefix: the exact sum of the computed intensities is within `3·10^-14 / ρ` of 1 -/
theorem flFused_sum_f64 {F : FlModel} (hF : F.OK) (hu : F.u = 1 / 2 ^ 53) {l : List ℚ} {k : Nat} {p : ℚ → Bool}
    (hl : ∀ x ∈ l, 0 < x) (hne : (l.take k).filter p ≠ []) (hn : (l.take k).length ≤ 64)
    {ρ : ℚ} (hρlo : 1 / 10 ^ 12 ≤ ρ) (hρ : ρ * (l.take k).sum ≤ ((l.take k).filter p).sum) :
    ratAbs ((flFused F l k p).sum - 1) ≤ 3 / (10 ^ 14 * ρ) := by
  have hu1 : F.u < 1 := by rw [hu]; norm_num
  have h0 := hF.1
  have hρ0 : 0 < ρ := lt_of_lt_of_le (by norm_num) hρlo
  set N := (l.take k).length + ((l.take k).filter fun x => !p x).length with hN
  have hN128 : N ≤ 128 := by
    have := List.length_filter_le (fun x => !p x) (l.take k)
    omega
  have hε : (1 + F.u) ^ N - 1 ≤ 1425 / 10 ^ 17 := pow_sub_one_le_f64 hu hN128
  have hε0 : 0 ≤ (1 + F.u) ^ N - 1 := by
    have : (1 : ℚ) ≤ (1 + F.u) ^ N := one_le_pow₀ (by linarith)
    linarith
  -- `ρ ≤ 1`
  have hpos_pre : ∀ x ∈ l.take k, 0 < x := fun x hx => hl x (List.mem_of_mem_take hx)
  have hSpos : 0 < ((l.take k).filter p).sum :=
    (flSum_pos hF hne (fun x hx => hpos_pre x (List.mem_of_mem_filter hx)) hu1).1
  have hpart := sum_filter_add_sum_filter_not p (l.take k)
  have hD0 : 0 ≤ ((l.take k).filter fun x => !p x).sum :=
    List.sum_nonneg fun x hx => (hpos_pre x (List.mem_of_mem_filter hx)).le
  have hρ1 : ρ ≤ 1 := by
    by_contra hc
    rw [not_le] at hc
    nlinarith
  set t := 1 / ρ with ht
  have ht1 : 1 ≤ t := by rw [ht, le_div_iff₀ hρ0]; linarith
  have ht12 : t ≤ 10 ^ 12 := by
    rw [ht, div_le_iff₀ hρ0]
    have := mul_le_mul_of_nonneg_left hρlo (by norm_num : (0 : ℚ) ≤ 10 ^ 12)
    norm_num at this ⊢; linarith
  set η := ((1 + F.u) ^ N - 1) * (2 - ρ) / ρ with hηdef
  have hη0 : 0 ≤ η := div_nonneg (mul_nonneg hε0 (by linarith)) hρ0.le
  have hηle : η ≤ 285 / 10 ^ 16 * t := by
    have e : η = ((1 + F.u) ^ N - 1) * (2 - ρ) * t := by rw [hηdef, ht]; ring
    rw [e]
    have h1 : ((1 + F.u) ^ N - 1) * (2 - ρ) ≤ 1425 / 10 ^ 17 * 2 :=
      mul_le_mul hε (by linarith) (by linarith) (by norm_num)
    have := mul_le_mul_of_nonneg_right h1 (by linarith : 0 ≤ t)
    linarith
  have hη1 : η < 1 := by
    have : 285 / 10 ^ 16 * t ≤ 285 / 10 ^ 16 * 10 ^ 12 :=
      mul_le_mul_of_nonneg_left ht12 (by norm_num)
    have : (285 : ℚ) / 10 ^ 16 * 10 ^ 12 < 1 := by norm_num
    linarith
  have h := flFused_sum hF hu1 hl hne hρ0 hρ hη1
  rw [← hN, ← hηdef] at h
  have e3 : (3 : ℚ) / (10 ^ 14 * ρ) = 3 / 10 ^ 14 * t := by rw [ht]; field_simp
  rw [e3, ratAbs_eq_abs]
  have hut : F.u ≤ 12 / 10 ^ 17 * t := by
    have : F.u ≤ 12 / 10 ^ 17 := by rw [hu]; norm_num
    have : (12 : ℚ) / 10 ^ 17 * 1 ≤ 12 / 10 ^ 17 * t := mul_le_mul_of_nonneg_left ht1 (by norm_num)
    linarith
  have hηc : η ≤ 285 / 10 ^ 4 := by
    have : (285 : ℚ) / 10 ^ 16 * t ≤ 285 / 10 ^ 16 * 10 ^ 12 :=
      mul_le_mul_of_nonneg_left ht12 (by norm_num)
    have e : (285 : ℚ) / 10 ^ 16 * 10 ^ 12 = 285 / 10 ^ 4 := by norm_num
    linarith
  exact fused_num ht1 hη0 hut hηle hηc h.1 h.2

/-! ### 3. the hypotheses are satisfiable -/

/-- prefix of 3 of `[8, 4, 2, 1, 1]`, dropping the peaks below 3: survivors `[8, 4]` carry `12/14 ≥ 6/7` -/
example : (∀ x ∈ ([8, 4, 2, 1, 1] : List ℚ), 0 < x)
    ∧ (([8, 4, 2, 1, 1] : List ℚ).take 3).filter (fun x => decide (3 ≤ x)) ≠ []
    ∧ (([8, 4, 2, 1, 1] : List ℚ).take 3).length ≤ 64
    ∧ (1 : ℚ) / 10 ^ 12 ≤ 6 / 7
    ∧ (6 / 7 : ℚ) * (([8, 4, 2, 1, 1] : List ℚ).take 3).sum
        ≤ ((([8, 4, 2, 1, 1] : List ℚ).take 3).filter (fun x => decide (3 ≤ x))).sum := by
  decide +kernel

example : flFusedTotal exactModel [8, 4, 2] [2] = 12 := by decide +kernel

example : flFused exactModel [8, 4, 2, 1, 1] 3 (fun x => decide (3 ≤ x)) = [2 / 3, 1 / 3] := by
  decide +kernel

example : flDropLast exactModel [2, 1, 1, 4] = [1 / 2, 1 / 4, 1 / 4] := by decide +kernel
example : flSlice exactModel [7, 2, 1, 1, 4] 1 4 = [1 / 2, 1 / 4, 1 / 4] := by decide +kernel
example : flPrefix exactModel [2, 1, 1, 4] 3 = [1 / 2, 1 / 4, 1 / 4] := by decide +kernel
example : flFilter exactModel [2, 7, 1, 1] (fun x => decide (x ≤ 2)) = [1 / 2, 1 / 4, 1 / 4] := by
  decide +kernel

/-- cancellation is real: in the model that is always off by the full `u = 1/8`, the running total of
`[8, 1]` minus the dropped `8` is `117/32 ≈ 3.66` against the exact `1` (survivor fraction `ρ = 1/9`) -/
example : flFusedTotal ⟨fun x => x * (1 + 1 / 8), 1 / 8⟩ [8, 1] [8] = 117 / 32 := by decide +kernel


end Chem
