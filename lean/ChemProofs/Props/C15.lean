import Mathlib.Tactic.FieldSimp
import Mathlib.Tactic.Ring
import Mathlib.Tactic.Linarith
import Mathlib.Algebra.Order.Field.Rat
import Mathlib.Data.Nat.Factorial.Basic
import ChemProofs.Model.Poisson
/-
C15 — the Poisson approximation is a normalised Poisson profile on a neutron ladder
(exact arithmetic: `(mass/1800)^n` is always "representable" in ℚ).
-/
namespace Chem

/-! ### the intensity loop -/

theorem poissonInts_length (lam : Rat) (k i : Nat) (s : PoisState) : (poissonInts lam k i s).length = k := by
  induction k generalizing i s with
  | zero => rfl
  | succ k ih => simp [poissonInts, ih]

/-- loop invariant: positive factorial accumulator, non-negative power accumulator -/
def PoisState.Good (s : PoisState) : Prop := 0 ≤ s.p ∧ 0 < s.f

theorem pNext_good (lam : Rat) (hl : 0 ≤ lam) (s : PoisState) (i : Nat) (hi : 1 ≤ i) (h : s.Good) :
    (pNext lam s i).Good := by
  refine ⟨mul_nonneg h.1 hl, mul_pos h.2 ?_⟩
  exact_mod_cast hi

theorem cur_nonneg (s : PoisState) (h : s.Good) : 0 ≤ s.cur := div_nonneg h.1 h.2.le

theorem poissonInts_nonneg (lam : Rat) (hl : 0 ≤ lam) (k i : Nat) (hi : 1 ≤ i) (s : PoisState) (h : s.Good) :
    ∀ x ∈ poissonInts lam k i s, 0 ≤ x := by
  induction k generalizing i s with
  | zero => simp [poissonInts]
  | succ k ih =>
    intro x hx
    simp only [poissonInts, List.mem_cons] at hx
    rcases hx with rfl | hx
    · exact cur_nonneg _ (pNext_good lam hl s i hi h)
    · exact ih (i + 1) (by omega) _ (pNext_good lam hl s i hi h) x hx

theorem sum_nonneg_of (l : List Rat) (h : ∀ x ∈ l, 0 ≤ x) : 0 ≤ l.sum := by
  induction l with
  | nil => simp
  | cons x xs ih =>
    simp only [List.sum_cons]
    have := h x (by simp)
    have := ih (fun y hy => h y (by simp [hy]))
    linarith

/-- the ratio law inside the loop: each new term is the previous one times `λ / i` -/
theorem cur_step (lam : Rat) (s : PoisState) (i : Nat) (hi : 1 ≤ i) (h : s.Good) :
    (pNext lam s i).cur * (i : Rat) = s.cur * lam := by
  have hf := h.2.ne'
  have hi' : ((i : Nat) : Rat) ≠ 0 := by
    have : (0 : Rat) < (i : Rat) := by exact_mod_cast hi
    exact this.ne'
  simp only [PoisState.cur, pNext]
  field_simp

/-- consecutive entries of the intensity list obey `x_j · (i+j) = x_{j-1} · λ`
    (`s.cur` is the term before the first one) -/
theorem poissonInts_ratio (lam : Rat) (hl : 0 ≤ lam) (k i : Nat) (hi : 1 ≤ i) (s : PoisState) (h : s.Good) :
    ∀ j (hj : j < (poissonInts lam k i s).length),
      (poissonInts lam k i s)[j] * ((i + j : Nat) : Rat) =
        (if hj0 : j = 0 then s.cur else (poissonInts lam k i s)[j - 1]'(by omega)) * lam := by
  induction k generalizing i s with
  | zero => intro j hj; simp [poissonInts] at hj
  | succ k ih =>
    intro j hj
    cases j with
    | zero =>
      simp only [poissonInts, List.getElem_cons_zero, Nat.add_zero, dite_true]
      exact cur_step lam s i hi h
    | succ j =>
      have hg := pNext_good lam hl s i hi h
      have := ih (i + 1) (by omega) (pNext lam s i) hg j (by simpa [poissonInts] using hj)
      simp only [poissonInts, List.getElem_cons_succ]
      have hidx : i + (j + 1) = i + 1 + j := by omega
      rw [hidx, this]
      cases j with
      | zero => simp
      | succ j' => simp

/-! ### the pattern -/

theorem fst_mem_of_mem_zipIdx (l : List Rat) (k : Nat) (p : Rat × Nat) (h : p ∈ l.zipIdx k) : p.1 ∈ l := by
  induction l generalizing k with
  | nil => simp at h
  | cons x xs ih =>
    simp only [List.zipIdx_cons, List.mem_cons] at h
    rcases h with rfl | h
    · simp
    · exact List.mem_cons_of_mem _ (ih (k + 1) h)

theorem map_int_zipIdx (l : List Rat) (k : Nat) (tot : Rat) (F : Nat → Rat) :
    ((l.zipIdx k).map (fun x => ({ mz := F x.2, int := x.1 / tot } : Peak))).map (·.int) = l.map (· / tot) := by
  induction l generalizing k with
  | nil => rfl
  | cons x xs ih => simp [List.zipIdx_cons, ih]

theorem map_mz_zipIdx (l : List Rat) (k : Nat) (tot : Rat) (F : Nat → Rat) :
    ((l.zipIdx k).map (fun x => ({ mz := F x.2, int := x.1 / tot } : Peak))).map (·.mz) =
      (List.range' k l.length).map F := by
  induction l generalizing k with
  | nil => rfl
  | cons x xs ih => simp [List.zipIdx_cons, List.range'_succ, ih]

theorem sum_map_div (l : List Rat) (c : Rat) : (l.map (· / c)).sum = l.sum / c := by
  induction l with
  | nil => simp
  | cons a as ih => simp only [List.map_cons, List.sum_cons, ih]; ring

/-- exactly `n` peaks -/
theorem poisson_len (mass : Rat) (n : Nat) (z : Int) (lf ns pr : Rat) : (poisson mass n z lf ns pr).length = n := by
  unfold poisson
  split
  · simp_all
  · simp [poissonInts_length]; omega

/-- m/z values start at the charged mass and climb the neutron ladder:
    `mz[i] = chargedMz (mass + i·shift) z proton` -/
theorem poisson_mz (mass : Rat) (n : Nat) (z : Int) (lf ns pr : Rat) :
    (poisson mass n z lf ns pr).map (·.mz) =
      (List.range n).map (fun (i : Nat) => chargedMz (mass + ((i : Nat) : Rat) * ns) z pr) := by
  by_cases hn : n = 0
  · simp [poisson, hn]
  · simp only [poisson, hn, if_false]
    rw [map_mz_zipIdx _ 0 _ (fun i => chargedMz (mass + ((i : Nat) : Rat) * ns) z pr)]
    simp only [List.length_cons, poissonInts_length, List.range_eq_range']
    congr 1
    congr 1
    omega

/-- spacing of consecutive peaks is `shift / |z|` (for `z ≠ 0`) -/
theorem chargedMz_spacing (m ns pr : Rat) (z : Int) (hz : z ≠ 0) (i : Nat) :
    chargedMz (m + ((i + 1 : Nat) : Rat) * ns) z pr - chargedMz (m + (i : Rat) * ns) z pr =
      ns / ((z.natAbs : Nat) : Rat) := by
  have hp : ((z.natAbs : Nat) : Rat) ≠ 0 := by
    have := Int.natAbs_pos.2 hz
    exact_mod_cast this.ne'
  simp only [chargedMz, hz, if_false]
  push_cast
  field_simp
  ring

/-- intensities are non-negative and sum to 1 (mass ≥ 0, n ≥ 1) -/
theorem poisson_sum (mass : Rat) (n : Nat) (z : Int) (lf ns pr : Rat) (hm : 0 ≤ mass) (hlf : 0 < lf) (hn : 1 ≤ n) :
    (∀ q ∈ poisson mass n z lf ns pr, 0 ≤ q.int) ∧ total (poisson mass n z lf ns pr) = 1 := by
  have hl : 0 ≤ mass / lf := div_nonneg hm hlf.le
  have hgood : (⟨1, 1⟩ : PoisState).Good := ⟨by norm_num, by norm_num⟩
  have hnn := poissonInts_nonneg (mass / lf) hl (n - 1) 1 (le_refl _) ⟨1, 1⟩ hgood
  have hsum := sum_nonneg_of _ hnn
  have htot : 0 < ((1 : Rat) :: poissonInts (mass / lf) (n - 1) 1 ⟨1, 1⟩).sum := by
    simp only [List.sum_cons]; linarith
  unfold total intensities
  have hn0 : ¬ n = 0 := by omega
  simp only [poisson, hn0, if_false]
  constructor
  · intro q hq
    simp only [List.mem_map] at hq
    obtain ⟨⟨x, i⟩, hx, rfl⟩ := hq
    have hxm : x ∈ ((1 : Rat) :: poissonInts (mass / lf) (n - 1) 1 ⟨1, 1⟩) :=
      fst_mem_of_mem_zipIdx _ 0 (x, i) hx
    have hx0 : 0 ≤ x := by
      simp only [List.mem_cons] at hxm
      rcases hxm with rfl | h
      · norm_num
      · exact hnn x h
    exact div_nonneg hx0 htot.le
  · rw [map_int_zipIdx _ 0 _ (fun i => chargedMz (mass + ((i : Nat) : Rat) * ns) z pr)]
    rw [sum_map_div, div_self htot.ne']

/-! ### the peak-count estimate -/

theorem firstBelow_ge {α : Type} (below : α → α → Bool) (ratio : Nat → α) (target : α) (maxIter fuel i : Nat)
    (hi : i ≤ maxIter) : i ≤ firstBelow below ratio target maxIter fuel i := by
  induction fuel generalizing i with
  | zero => exact hi
  | succ f ih =>
    simp only [firstBelow]
    split
    · split
      · exact Nat.le_refl _
      · exact Nat.le_trans (Nat.le_succ i) (ih (i + 1) (by omega))
    · exact hi

theorem firstBelow_le {α : Type} (below : α → α → Bool) (ratio : Nat → α) (target : α) (maxIter fuel i : Nat)
    (hi : i ≤ maxIter) : firstBelow below ratio target maxIter fuel i ≤ maxIter := by
  induction fuel generalizing i with
  | zero => exact Nat.le_refl _
  | succ f ih =>
    simp only [firstBelow]
    split
    · split
      · exact hi
      · exact ih (i + 1) (by omega)
    · exact Nat.le_refl _

/-- **monotonicity, for any arithmetic**: if everything below the smaller target is below the larger
    one (true of `<` on ℚ, and of `<` on `f64` since NaN compares false and `1.0 - t` is monotone),
    the returned count never decreases when the threshold `t` increases (i.e. the target decreases). -/
theorem firstBelow_mono {α : Type} (below : α → α → Bool) (ratio : Nat → α) (tgt tgt' : α)
    (h : ∀ x, below x tgt' = true → below x tgt = true) (maxIter fuel i : Nat) (hi : i ≤ maxIter) :
    firstBelow below ratio tgt maxIter fuel i ≤ firstBelow below ratio tgt' maxIter fuel i := by
  induction fuel generalizing i with
  | zero => exact Nat.le_refl _
  | succ f ih =>
    simp only [firstBelow]
    split
    · rename_i hlt
      by_cases h1 : below (ratio i) tgt = true
      · simp only [h1, if_true]
        split
        · exact Nat.le_refl _
        · exact Nat.le_trans (Nat.le_succ i) (firstBelow_ge below ratio tgt' maxIter f (i + 1) (by omega))
      · have h2 : ¬ below (ratio i) tgt' = true := fun hh => h1 (h _ hh)
        simp only [h1, h2, if_false]
        exact ih (i + 1) (by omega)
    · exact Nat.le_refl _

/-- the ℚ loop is the generic loop run on the exact ratios -/
def ratioAt (lam : Rat) (i : Nat) : Rat := (poissonRatios lam i 1 ⟨1, 1⟩ 1).getLastD 0

theorem poissonRatios_succ (lam : Rat) (k i : Nat) (s : PoisState) (acc : Rat) :
    poissonRatios lam (k + 1) i s acc =
      (let s' := pNext lam s i; (s'.cur / (acc + s'.cur)) :: poissonRatios lam k (i + 1) s' (acc + s'.cur)) := rfl

/-- count is always within `1 ..= maxIter` -/
theorem poissonNLoop_range (lam target : Rat) (maxIter fuel i : Nat) (s : PoisState) (acc : Rat) (hi : i ≤ maxIter) :
    i ≤ poissonNLoop lam target maxIter fuel i s acc ∧ poissonNLoop lam target maxIter fuel i s acc ≤ maxIter := by
  induction fuel generalizing i s acc with
  | zero => exact ⟨hi, Nat.le_refl _⟩
  | succ f ih =>
    simp only [poissonNLoop]
    split
    · split
      · exact ⟨Nat.le_refl _, hi⟩
      · have := ih (i + 1) (pNext lam s i) (acc + (pNext lam s i).cur) (by omega)
        exact ⟨by omega, this.2⟩
    · exact ⟨hi, Nat.le_refl _⟩

/-- `poisson_approximate_n_peaks_of` returns a count in `1 ..= 255` -/
theorem poissonN_range (mass lf t : Rat) (maxIter : Nat) (h : 1 ≤ maxIter) :
    1 ≤ poissonN mass lf t maxIter ∧ poissonN mass lf t maxIter ≤ maxIter :=
  poissonNLoop_range _ _ maxIter maxIter 1 ⟨1, 1⟩ 1 h

/-- monotone in the threshold (exact arithmetic instance) -/
theorem poissonNLoop_mono (lam tgt tgt' : Rat) (h : tgt' ≤ tgt) (maxIter fuel i : Nat) (s : PoisState) (acc : Rat)
    (hi : i ≤ maxIter) :
    poissonNLoop lam tgt maxIter fuel i s acc ≤ poissonNLoop lam tgt' maxIter fuel i s acc := by
  induction fuel generalizing i s acc with
  | zero => exact Nat.le_refl _
  | succ f ih =>
    simp only [poissonNLoop]
    split
    · by_cases h1 : (pNext lam s i).cur / (acc + (pNext lam s i).cur) < tgt
      · simp only [h1, if_true]
        split
        · exact Nat.le_refl _
        · exact Nat.le_trans (Nat.le_succ i) (poissonNLoop_range lam tgt' maxIter f (i + 1) _ _ (by omega)).1
      · have h2 : ¬ (pNext lam s i).cur / (acc + (pNext lam s i).cur) < tgt' := fun hh => h1 (lt_of_lt_of_le hh h)
        simp only [h1, h2, if_false]
        exact ih (i + 1) _ _ (by omega)
    · exact Nat.le_refl _

/-- **the count never decreases when `t` increases** -/
theorem poissonN_mono (mass lf t t' : Rat) (maxIter : Nat) (h : t ≤ t') (hm : 1 ≤ maxIter) :
    poissonN mass lf t maxIter ≤ poissonN mass lf t' maxIter :=
  poissonNLoop_mono _ (1 - t) (1 - t') (by linarith) maxIter maxIter 1 ⟨1, 1⟩ 1 hm

/-- **minimality**: the loop returns `i` exactly when the `i`-th ratio is the first one below
    `1 - t`; `maxIter` when none is -/
theorem poissonNLoop_first (lam target : Rat) (maxIter fuel i : Nat) (s : PoisState) (acc : Rat)
    (hf : maxIter ≤ i + fuel) (hi : i ≤ maxIter) :
    poissonNLoop lam target maxIter fuel i s acc =
      match (poissonRatios lam (maxIter - i) i s acc).findIdx? (fun r => decide (r < target)) with
      | some j => i + j
      | none => maxIter := by
  induction fuel generalizing i s acc with
  | zero =>
    have : maxIter - i = 0 := by omega
    simp [poissonNLoop, this, poissonRatios]
  | succ f ih =>
    simp only [poissonNLoop]
    by_cases hlt : i < maxIter
    · have hk : maxIter - i = (maxIter - (i + 1)) + 1 := by omega
      rw [hk, poissonRatios_succ]
      simp only [hlt, if_true, List.findIdx?_cons]
      by_cases h1 : (pNext lam s i).cur / (acc + (pNext lam s i).cur) < target
      · simp [h1]
      · simp only [h1, if_false, decide_false, Bool.false_eq_true]
        rw [ih (i + 1) _ _ (by omega) (by omega)]
        generalize (poissonRatios lam (maxIter - (i + 1)) (i + 1) (pNext lam s i) (acc + (pNext lam s i).cur)).findIdx?
            (fun r => decide (r < target)) = o
        cases o with
        | none => rfl
        | some j => simp only [Option.map_some]; show i + 1 + j = i + (j + 1); omega
    · have : maxIter - i = 0 := by omega
      simp [hlt, this, poissonRatios]

/-- non-vacuity: an actual pattern and an actual count -/
example : (poisson 1800 3 1 1800 1 1).map (·.int) = [2/5, 2/5, 1/5] := by decide +kernel
example : poissonN 1800 1800 (1/2) 255 = 2 := by decide +kernel

/-! ## closed forms (TASK K, part 2)

`pterm λ m = λ^m / m!`, `pacc λ i = Σ_{m ≤ i} pterm λ m`, `pratio λ i = pterm λ i / pacc λ i`.
Proved in full (nothing missing): `poissonInts_closed`, `poisson_closed`, `poisson_ratio`,
`poissonRatios_closed` (+ `_getElem`), `poissonN_minimal`, `poissonN_eq_of`.
`poisson_ratio` keeps the hypotheses `0 ≤ mass`, `0 < lf`, `i < n` of its specification although the
proof (through the closed form) does not need them. -/

/-- the `m`-th Poisson term (unnormalised): `λ^m / m!` -/
def pterm (lam : Rat) (m : Nat) : Rat := lam ^ m / (m.factorial : Rat)

/-- partial sums `Σ_{m < n} λ^m / m!` -/
def psum (lam : Rat) : Nat → Rat
  | 0 => 0
  | n + 1 => psum lam n + pterm lam n

/-- state after iterations `1 … m`: `(λ^m, m!)` -/
def stateAt (lam : Rat) (m : Nat) : PoisState := ⟨lam ^ m, (m.factorial : Rat)⟩

theorem pNext_stateAt (lam : Rat) (m : Nat) : pNext lam (stateAt lam m) (m + 1) = stateAt lam (m + 1) := by
  simp only [pNext, stateAt, Nat.factorial_succ, pow_succ]
  push_cast
  congr 1
  ring

theorem stateAt_cur (lam : Rat) (m : Nat) : (stateAt lam m).cur = pterm lam m := rfl

theorem stateAt_zero (lam : Rat) : stateAt lam 0 = ⟨1, 1⟩ := by
  simp [stateAt]

theorem poissonInts_stateAt (lam : Rat) (k m : Nat) :
    poissonInts lam k (m + 1) (stateAt lam m) = (List.range' (m + 1) k).map (pterm lam) := by
  induction k generalizing m with
  | zero => rfl
  | succ k ih =>
    simp only [poissonInts, pNext_stateAt, stateAt_cur, ih, List.range'_succ, List.map_cons]

theorem poissonInts_closed (lam : Rat) (k : Nat) (j : Nat) (hj : j < k) :
    (poissonInts lam k 1 ⟨1, 1⟩)[j]'(by rw [poissonInts_length]; exact hj) =
      lam ^ (j + 1) / ((j + 1).factorial : Rat) := by
  have h := poissonInts_stateAt lam k 0
  rw [stateAt_zero] at h
  have e : 0 + 1 + 1 * j = j + 1 := by omega
  simp only [h, List.getElem_map, List.getElem_range', pterm, e]


/-- `Σ_{m ≤ i} λ^m / m!` -/
def pacc (lam : Rat) (i : Nat) : Rat := ((List.range (i + 1)).map (pterm lam)).sum

theorem pterm_zero (lam : Rat) : pterm lam 0 = 1 := by simp [pterm]

theorem pacc_zero (lam : Rat) : pacc lam 0 = 1 := by simp [pacc, pterm_zero]

theorem pacc_succ (lam : Rat) (i : Nat) : pacc lam (i + 1) = pacc lam i + pterm lam (i + 1) := by
  simp only [pacc, List.range_succ (n := i + 1), List.map_append, List.sum_append, List.map_cons,
    List.map_nil, List.sum_cons, List.sum_nil, add_zero]

/-- the ratio law of the Poisson terms: `t_i · i = t_{i-1} · λ` -/
theorem pterm_step (lam : Rat) (i : Nat) : pterm lam (i + 1) * ((i + 1 : Nat) : Rat) = pterm lam i * lam := by
  have h1 : ((i.factorial : Nat) : Rat) ≠ 0 := by exact_mod_cast (Nat.factorial_pos i).ne'
  have h2 : (((i + 1 : Nat)) : Rat) ≠ 0 := by exact_mod_cast (Nat.succ_pos i).ne'
  simp only [pterm, Nat.factorial_succ, pow_succ]
  push_cast
  have h2' : ((i : Rat) + 1) ≠ 0 := by exact_mod_cast h2
  field_simp

/-- the whole unnormalised intensity list is `[t_0, …, t_{n-1}]` -/
theorem poisson_ints_eq (lam : Rat) (n : Nat) (hn : n ≠ 0) :
    (1 : Rat) :: poissonInts lam (n - 1) 1 ⟨1, 1⟩ = (List.range n).map (pterm lam) := by
  have h := poissonInts_stateAt lam (n - 1) 0
  rw [stateAt_zero] at h
  obtain ⟨k, rfl⟩ : ∃ k, n = k + 1 := ⟨n - 1, by omega⟩
  rw [h, List.range_eq_range', List.range'_succ, List.map_cons, pterm_zero]
  simp

/-- **closed form of the pattern**: peak `i` has intensity `(λ^i / i!) / Σ_{j<n} λ^j / j!` -/
theorem poisson_closed (mass : Rat) (n : Nat) (z : Int) (lf ns pr : Rat) (i : Nat) (p : Peak)
    (hp : (poisson mass n z lf ns pr)[i]? = some p) :
    p.int = ((mass / lf) ^ i / (i.factorial : Rat)) /
      ((List.range n).map (fun j => (mass / lf) ^ j / (j.factorial : Rat))).sum := by
  have hlen := poisson_len mass n z lf ns pr
  have hin : i < n := by
    rw [← hlen]
    exact (List.getElem?_eq_some_iff.1 hp).1
  have hn : ¬ n = 0 := by omega
  have hint : ((poisson mass n z lf ns pr).map (·.int))[i]? = some p.int := by
    rw [List.getElem?_map, hp]; rfl
  simp only [poisson, hn, if_false] at hint
  rw [map_int_zipIdx _ 0 _ (fun i => chargedMz (mass + ((i : Nat) : Rat) * ns) z pr)] at hint
  rw [poisson_ints_eq _ n hn] at hint
  rw [List.getElem?_map, List.getElem?_map, List.getElem?_range hin] at hint
  simp only [Option.map_some, Option.some.injEq] at hint
  rw [← hint]
  rfl

/-- **ratio law on the returned pattern**: `p_i · i = p_{i-1} · λ` with `λ = mass / lambda_factor` -/
theorem poisson_ratio (mass : Rat) (n : Nat) (z : Int) (lf ns pr : Rat) (_hm : 0 ≤ mass) (_hlf : 0 < lf)
    (i : Nat) (hi : 1 ≤ i) (_hin : i < n)
    (p q : Peak) (hp : (poisson mass n z lf ns pr)[i]? = some p) (hq : (poisson mass n z lf ns pr)[i-1]? = some q) :
    p.int * (i : Rat) = q.int * (mass / lf) := by
  rw [poisson_closed mass n z lf ns pr i p hp, poisson_closed mass n z lf ns pr (i - 1) q hq]
  obtain ⟨k, rfl⟩ : ∃ k, i = k + 1 := ⟨i - 1, by omega⟩
  have := pterm_step (mass / lf) k
  have key : ∀ a b S c d : Rat, a * c = b * d → a / S * c = b / S * d := by
    intro a b S c d h
    rw [div_mul_eq_mul_div, h, div_mul_eq_mul_div]
  simp only [pterm] at this
  simp only [Nat.add_sub_cancel]
  exact key _ _ _ _ _ this


/-! ### the peak-count loop in closed form -/

/-- the `i`-th ratio compared by the loop: `t_i / Σ_{m ≤ i} t_m` -/
def pratio (lam : Rat) (i : Nat) : Rat := pterm lam i / pacc lam i

theorem poissonRatios_stateAt (lam : Rat) (k m : Nat) :
    poissonRatios lam k (m + 1) (stateAt lam m) (pacc lam m) = (List.range' (m + 1) k).map (pratio lam) := by
  induction k generalizing m with
  | zero => rfl
  | succ k ih =>
    simp only [poissonRatios, pNext_stateAt, stateAt_cur, ← pacc_succ, ih, List.range'_succ, List.map_cons, pratio]

/-- **closed form of the compared ratios**: entry `j` is `t_{j+1} / Σ_{m ≤ j+1} t_m`, `t_m = λ^m / m!` -/
theorem poissonRatios_closed (lam : Rat) (k : Nat) :
    poissonRatios lam k 1 ⟨1, 1⟩ 1 = (List.range' 1 k).map (pratio lam) := by
  have h := poissonRatios_stateAt lam k 0
  rw [stateAt_zero, pacc_zero] at h
  exact h

theorem poissonRatios_closed_getElem (lam : Rat) (k j : Nat) (hj : j < (poissonRatios lam k 1 ⟨1, 1⟩ 1).length) :
    (poissonRatios lam k 1 ⟨1, 1⟩ 1)[j] =
      (lam ^ (j + 1) / ((j + 1).factorial : Rat)) /
        ((List.range (j + 2)).map (fun m => lam ^ m / (m.factorial : Rat))).sum := by
  have e : 1 + 1 * j = j + 1 := by omega
  simp only [poissonRatios_closed, List.getElem_map, List.getElem_range', e]
  rfl

/-- **minimality in closed form**: the count `c` returned by `poisson_approximate_n_peaks_of` lies in
    `1 ..= maxIter`; no `i ∈ [1, c)` has `t_i / Σ_{m≤i} t_m < 1 - t`; and if `c < maxIter` then `c` itself has.
    I.e. `c` is the least `i ∈ [1, maxIter)` whose ratio is below `1 - t`, else `maxIter`. -/
theorem poissonN_minimal (mass lf t : Rat) (maxIter : Nat) (hm : 1 ≤ maxIter) :
    1 ≤ poissonN mass lf t maxIter ∧ poissonN mass lf t maxIter ≤ maxIter ∧
    (∀ i, 1 ≤ i → i < poissonN mass lf t maxIter → ¬ pratio (mass / lf) i < 1 - t) ∧
    (poissonN mass lf t maxIter < maxIter → pratio (mass / lf) (poissonN mass lf t maxIter) < 1 - t) := by
  have hr := poissonN_range mass lf t maxIter hm
  refine ⟨hr.1, hr.2, ?_⟩
  have hfirst := poissonNLoop_first (mass / lf) (1 - t) maxIter maxIter 1 ⟨1, 1⟩ 1 (by omega) hm
  rw [poissonRatios_closed] at hfirst
  unfold poissonN
  rw [hfirst]
  cases hfi : List.findIdx? (fun r => decide (r < 1 - t)) (List.map (pratio (mass / lf)) (List.range' 1 (maxIter - 1))) with
  | none =>
    simp only
    rw [List.findIdx?_eq_none_iff] at hfi
    refine ⟨?_, fun h => absurd h (Nat.lt_irrefl _)⟩
    intro i hi1 hi2
    have hmem : pratio (mass / lf) i ∈ List.map (pratio (mass / lf)) (List.range' 1 (maxIter - 1)) := by
      apply List.mem_map_of_mem
      rw [List.mem_range'_1]
      omega
    have := hfi _ hmem
    simpa using this
  | some j =>
    simp only
    rw [List.findIdx?_eq_some_iff_getElem] at hfi
    obtain ⟨hj, hpj, hlt⟩ := hfi
    simp only [List.length_map, List.length_range'] at hj
    constructor
    · intro i hi1 hi2
      have := hlt (i - 1) (by omega)
      have e : 1 + 1 * (i - 1) = i := by omega
      simpa only [List.getElem_map, List.getElem_range', e, decide_eq_true_eq] using this
    · intro _
      have e : 1 + 1 * j = 1 + j := by omega
      simpa only [List.getElem_map, List.getElem_range', e, decide_eq_true_eq] using hpj

/-- the characterisation determines the count uniquely -/
theorem poissonN_eq_of (mass lf t : Rat) (maxIter : Nat) (hm : 1 ≤ maxIter) (c : Nat)
    (hc1 : 1 ≤ c) (hc2 : c ≤ maxIter)
    (hbefore : ∀ i, 1 ≤ i → i < c → ¬ pratio (mass / lf) i < 1 - t)
    (hat : c < maxIter → pratio (mass / lf) c < 1 - t) :
    poissonN mass lf t maxIter = c := by
  obtain ⟨h1, h2, h3, h4⟩ := poissonN_minimal mass lf t maxIter hm
  rcases Nat.lt_trichotomy (poissonN mass lf t maxIter) c with h | h | h
  · exact absurd (h4 (by omega)) (hbefore _ h1 h)
  · exact h
  · exact absurd (hat (by omega)) (h3 c hc1 h)


/-- non-vacuity of the closed forms -/
example : pratio 1 2 = 1 / 5 := by decide +kernel
example : poissonRatios 1 2 1 ⟨1, 1⟩ 1 = [1 / 2, 1 / 5] := by decide +kernel

end Chem
