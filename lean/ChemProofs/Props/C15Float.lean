import ChemProofs.Props.C13Float
/-
Two more floating-point error bounds in the standard model (`Model/Float.lean`):

* `poisson_approximation`'s last step `intensities[i] / total` (one division per entry by the running
  f64 sum of the terms; the terms may underflow to exactly `0`, so the entries are only `≥ 0`);
* the SIGNED left-to-right summation bound (mass of a composition: `Σ count·mass` with counts of
  either sign).
-/
namespace Chem

/-- `poisson_approximation`'s last step: `intensities[i] / total` with `total` the running f64 sum of the terms -/
def flDivNormalize (F : FlModel) (l : List Rat) : List Rat :=
  let t := flSum F l
  l.map (fun x => F.rnd (x / t))

/-! ### 1.–3. division by the computed total -/

/-- the exact sum of non-negative entries, one of them positive, is positive -/
theorem sum_pos_of_nonneg_of_exists_pos :
    ∀ {l : List ℚ}, (∀ x ∈ l, 0 ≤ x) → (∃ x ∈ l, 0 < x) → 0 < l.sum
  | [], _, ⟨_, hx, _⟩ => absurd hx List.not_mem_nil
  | y :: l, hl, ⟨x, hx, hx0⟩ => by
    have hy : 0 ≤ y := hl y (List.mem_cons_self ..)
    have hl' : ∀ z ∈ l, 0 ≤ z := fun z hz => hl z (List.mem_cons_of_mem _ hz)
    have hs : 0 ≤ l.sum := List.sum_nonneg hl'
    rw [List.sum_cons]
    rcases List.mem_cons.mp hx with rfl | hxl
    · linarith
    · have := sum_pos_of_nonneg_of_exists_pos hl' ⟨x, hxl, hx0⟩
      linarith

/-- the computed total of non-negative entries, one of them positive, is positive -/
theorem flSum_pos' {F : FlModel} (hF : F.OK) {l : List ℚ} (hl : ∀ x ∈ l, 0 ≤ x)
    (hpos : ∃ x ∈ l, 0 < x) (hu : F.u < 1) : 0 < l.sum ∧ 0 < flSum F l := by
  have hT := sum_pos_of_nonneg_of_exists_pos hl hpos
  refine ⟨hT, lt_of_lt_of_le ?_ (flSum_bounds hF hl hu.le).1⟩
  exact mul_pos (pow_pos (by linarith) _) hT

/-- exact sum of the divided-and-rounded entries against the exact quotient -/
theorem sum_map_rnd_div_bounds {F : FlModel} (hF : F.OK) {t : ℚ} (ht : 0 ≤ t) :
    ∀ (l : List ℚ), (∀ x ∈ l, 0 ≤ x) →
      (1 - F.u) * (l.sum / t) ≤ (l.map fun x => F.rnd (x / t)).sum ∧
      (l.map fun x => F.rnd (x / t)).sum ≤ (1 + F.u) * (l.sum / t)
  | [], _ => by simp
  | x :: l, hl => by
    have hx : 0 ≤ x := hl x (List.mem_cons_self ..)
    have ih := sum_map_rnd_div_bounds hF ht l fun y hy => hl y (List.mem_cons_of_mem _ hy)
    have hb := rnd_bounds hF (div_nonneg hx ht)
    simp only [List.map_cons, List.sum_cons, add_div]
    constructor
    · linarith [hb.1, ih.1]
    · linarith [hb.2, ih.2]

theorem flDivNormalize_sum {F : FlModel} (hF : F.OK) {l : List ℚ} (hne : l ≠ [])
    (hl : ∀ x ∈ l, 0 ≤ x) (hpos : ∃ x ∈ l, 0 < x) (hu : F.u < 1) :
    (1 - F.u) / (1 + F.u) ^ l.length ≤ (flDivNormalize F l).sum ∧
    (flDivNormalize F l).sum ≤ (1 + F.u) / (1 - F.u) ^ l.length := by
  have _ := hne
  obtain ⟨hT, hS⟩ := flSum_pos' hF hl hpos hu
  have h0 := hF.1
  have hb := flSum_bounds hF hl hu.le
  have hs := sum_map_rnd_div_bounds hF hS.le l hl
  have hp1 : 0 < (1 - F.u) ^ l.length := pow_pos (by linarith) _
  have hp2 : 0 < (1 + F.u) ^ l.length := pow_pos (by linarith) _
  unfold flDivNormalize
  constructor
  · refine le_trans ?_ hs.1
    rw [div_eq_mul_one_div]
    apply mul_le_mul_of_nonneg_left _ (by linarith)
    rw [div_le_div_iff₀ hp2 hS]
    linarith [hb.2]
  · refine le_trans hs.2 ?_
    rw [div_eq_mul_one_div (1 + F.u)]
    apply mul_le_mul_of_nonneg_left _ (by linarith)
    rw [div_le_div_iff₀ hS hp1]
    linarith [hb.1]

/-- every computed entry is non-negative -/
theorem flDivNormalize_nonneg {F : FlModel} (hF : F.OK) {l : List ℚ} (hne : l ≠ [])
    (hl : ∀ x ∈ l, 0 ≤ x) (hpos : ∃ x ∈ l, 0 < x) (hu : F.u < 1) :
    ∀ y ∈ flDivNormalize F l, 0 ≤ y := by
  have _ := hne
  obtain ⟨_, hS⟩ := flSum_pos' hF hl hpos hu
  intro y hy
  simp only [flDivNormalize, List.mem_map] at hy
  obtain ⟨x, hx, rfl⟩ := hy
  exact rnd_nonneg hF hu.le (div_nonneg (hl x hx) hS.le)

/-- the sum bound with the powers replaced by their first-order (Bernoulli) estimates:
for at most `N` terms with `N u < 1` -/
theorem flDivNormalize_sum_linear {F : FlModel} (hF : F.OK) {l : List ℚ} (hne : l ≠ [])
    (hl : ∀ x ∈ l, 0 ≤ x) (hpos : ∃ x ∈ l, 0 < x) (hu : F.u < 1) {N : Nat} (hN : l.length ≤ N)
    (hNu : (N : ℚ) * F.u < 1) :
    (1 - F.u) * (1 - (N : ℚ) * F.u) ≤ (flDivNormalize F l).sum ∧
    (flDivNormalize F l).sum ≤ (1 + F.u) / (1 - (N : ℚ) * F.u) := by
  have h0 := hF.1
  have hs := flDivNormalize_sum hF hne hl hpos hu
  have hnN : (l.length : ℚ) * F.u ≤ (N : ℚ) * F.u :=
    mul_le_mul_of_nonneg_right (by exact_mod_cast hN) h0
  have hd : 0 < 1 - (N : ℚ) * F.u := by linarith
  have hp1 : 0 < (1 - F.u) ^ l.length := pow_pos (by linarith) _
  have hp2 : 0 < (1 + F.u) ^ l.length := pow_pos (by linarith) _
  constructor
  · refine le_trans ?_ hs.1
    rw [le_div_iff₀ hp2, mul_assoc]
    apply mul_le_of_le_one_right (by linarith)
    have := one_add_pow_mul_le h0 l.length (by linarith)
    calc (1 - (N : ℚ) * F.u) * (1 + F.u) ^ l.length
        ≤ (1 - (l.length : ℚ) * F.u) * (1 + F.u) ^ l.length :=
          mul_le_mul_of_nonneg_right (by linarith) hp2.le
      _ = (1 + F.u) ^ l.length * (1 - (l.length : ℚ) * F.u) := mul_comm _ _
      _ ≤ 1 := this
  · refine le_trans hs.2 ?_
    apply div_le_div_of_nonneg_left (by linarith) hd
    have := one_sub_pow_ge h0 hu.le l.length
    linarith

theorem flDivNormalize_sum_f64 {F : FlModel} (hF : F.OK) (hu : F.u = 1 / 2 ^ 53) {l : List ℚ}
    (hne : l ≠ []) (hl : ∀ x ∈ l, 0 ≤ x) (hpos : ∃ x ∈ l, 0 < x) (hn : l.length ≤ 300) :
    ratAbs ((flDivNormalize F l).sum - 1) ≤ 1 / 10 ^ 13 := by
  have hu1 : F.u < 1 := by rw [hu]; norm_num
  have h := flDivNormalize_sum_linear hF hne hl hpos hu1 hn (by rw [hu]; norm_num)
  rw [hu] at h
  have hlo : (1 : ℚ) - 1 / 10 ^ 13 ≤ (1 - 1 / 2 ^ 53) * (1 - ((300 : Nat) : ℚ) * (1 / 2 ^ 53)) := by
    norm_num
  have hhi : (1 + 1 / 2 ^ 53 : ℚ) / (1 - ((300 : Nat) : ℚ) * (1 / 2 ^ 53)) ≤ 1 + 1 / 10 ^ 13 := by
    norm_num
  rw [ratAbs_eq_abs, abs_le]
  constructor <;> linarith [h.1, h.2]

/-! ### 4./5. signed summation -/

/-- The fold with a generalised accumulator: the computed value differs from the exact one by at most
`((1+u)^k − 1)·(|acc| + Σ|xᵢ|)`.  No sign condition on the terms, no smallness condition on `u`. -/
theorem foldl_abs_bound {F : FlModel} (hF : F.OK) :
    ∀ (l : List ℚ) (acc : ℚ),
      |l.foldl (fun acc x => F.rnd (acc + x)) acc - (acc + l.sum)|
        ≤ ((1 + F.u) ^ l.length - 1) * (|acc| + (l.map fun x => |x|).sum)
  | [], acc => by simp
  | x :: l, acc => by
    have h0 := hF.1
    have ih := foldl_abs_bound hF l (F.rnd (acc + x))
    have hr := rnd_abs hF (acc + x)
    have hax : |acc + x| ≤ |acc| + |x| := abs_add_le _ _
    -- `|rnd (acc + x)| ≤ (1 + u) (|acc| + |x|)`
    have hrabs : |F.rnd (acc + x)| ≤ (1 + F.u) * (|acc| + |x|) := by
      have e : F.rnd (acc + x) = (F.rnd (acc + x) - (acc + x)) + (acc + x) := by ring
      have := abs_add_le (F.rnd (acc + x) - (acc + x)) (acc + x)
      rw [← e] at this
      nlinarith [mul_le_mul_of_nonneg_left hax h0]
    have hB : 0 ≤ (l.map fun x => |x|).sum :=
      List.sum_nonneg fun y hy => by
        obtain ⟨z, _, rfl⟩ := List.mem_map.mp hy
        exact abs_nonneg z
    have hp : 1 ≤ (1 + F.u) ^ l.length := one_le_pow₀ (by linarith)
    simp only [List.foldl_cons, List.length_cons, List.sum_cons, List.map_cons, pow_succ]
    set g := l.foldl (fun acc x => F.rnd (acc + x)) (F.rnd (acc + x))
    set r := F.rnd (acc + x)
    set p := (1 + F.u) ^ l.length
    set B := (l.map fun x => |x|).sum
    have e : g - (acc + (x + l.sum)) = (g - (r + l.sum)) + (r - (acc + x)) := by ring
    rw [e]
    refine le_trans (abs_add_le _ _) ?_
    have h1 : (p - 1) * (|r| + B) ≤ (p - 1) * ((1 + F.u) * (|acc| + |x|) + B) :=
      mul_le_mul_of_nonneg_left (by linarith) (by linarith)
    have h2 : F.u * |acc + x| ≤ F.u * (|acc| + |x|) := mul_le_mul_of_nonneg_left hax h0
    have h3 : 0 ≤ p * F.u * B := mul_nonneg (mul_nonneg (by linarith) h0) hB
    have e2 : (p * (1 + F.u) - 1) * (|acc| + (|x| + B))
        = (p - 1) * ((1 + F.u) * (|acc| + |x|) + B) + F.u * (|acc| + |x|) + p * F.u * B := by ring
    rw [e2]
    linarith

theorem map_ratAbs_eq (l : List ℚ) : l.map ratAbs = l.map fun x => |x| :=
  List.map_congr_left fun x _ => ratAbs_eq_abs x

/-- the signed summation bound (`u ≤ 1` is not needed by the proof; kept for uniformity with
`flSum_bounds`) -/
theorem flSum_abs_bound {F : FlModel} (hF : F.OK) (_hu : F.u ≤ 1) (l : List ℚ) :
    ratAbs (flSum F l - l.sum) ≤ ((1 + F.u) ^ l.length - 1) * (l.map ratAbs).sum := by
  have := foldl_abs_bound hF l 0
  rw [ratAbs_eq_abs, map_ratAbs_eq]
  simpa [flSum] using this

theorem flSum_abs_bound_f64 {F : FlModel} (hF : F.OK) (hu : F.u = 1 / 2 ^ 53) {l : List ℚ}
    (hn : l.length ≤ 64) :
    ratAbs (flSum F l - l.sum) ≤ (1 / 10 ^ 14) * (l.map ratAbs).sum := by
  have h0 := hF.1
  have hu1 : F.u ≤ 1 := by rw [hu]; norm_num
  refine le_trans (flSum_abs_bound hF hu1 l) ?_
  have hB : 0 ≤ (l.map ratAbs).sum := by
    rw [map_ratAbs_eq]
    exact List.sum_nonneg fun y hy => by
      obtain ⟨z, _, rfl⟩ := List.mem_map.mp hy
      exact abs_nonneg z
  apply mul_le_mul_of_nonneg_right _ hB
  have hmono : (1 + F.u) ^ l.length ≤ (1 + F.u) ^ 64 := pow_le_pow_right₀ (by linarith) hn
  have hb := one_add_pow_mul_le h0 64 (by rw [hu]; norm_num)
  rw [hu] at hb hmono ⊢
  have hd : (0 : ℚ) < 1 - ((64 : Nat) : ℚ) * (1 / 2 ^ 53) := by norm_num
  have h64 : (1 + 1 / 2 ^ 53 : ℚ) ^ 64 ≤ 1 / (1 - ((64 : Nat) : ℚ) * (1 / 2 ^ 53)) := by
    rw [le_div_iff₀ hd]; exact hb
  have hc : (1 : ℚ) / (1 - ((64 : Nat) : ℚ) * (1 / 2 ^ 53)) ≤ 1 + 1 / 10 ^ 14 := by norm_num
  linarith

/-! ### non-vacuity -/

example : (flDivNormalize exactModel [1, 2, 1]).sum = 1 := by decide +kernel

example : flDivNormalize exactModel [1, 2, 1] = [1 / 4, 1 / 2, 1 / 4] := by decide +kernel

/-- an underflowed (exactly zero) term is allowed -/
example : flDivNormalize exactModel [0, 3, 1] = [0, 3 / 4, 1 / 4] := by decide +kernel

example : flSum exactModel [1, -1, 1 / 2] = 1 / 2 := by decide +kernel

/-- the hypotheses of `flDivNormalize_sum` hold for a list with a zero entry -/
example : (∀ x ∈ ([0, 3, 1] : List ℚ), 0 ≤ x) ∧ ∃ x ∈ ([0, 3, 1] : List ℚ), 0 < x := by
  refine ⟨fun x hx => ?_, 3, by simp, by norm_num⟩
  simp only [List.mem_cons, List.not_mem_nil, or_false] at hx
  rcases hx with rfl | rfl | rfl <;> norm_num

/-- the signed bound is attained up to the constant: with every rounding off by the full `u = 1/8`
the sum of `[1, -1, 1/2]` is off by `≤ ((9/8)^3 − 1)·(5/2)` -/
example : ratAbs (flSum ⟨fun x => x * (1 + 1 / 8), 1 / 8⟩ [1, -1, 1 / 2] - 1 / 2)
    ≤ ((1 + 1 / 8) ^ 3 - 1) * (5 / 2) := by decide +kernel

end Chem

#print axioms Chem.flDivNormalize_sum
#print axioms Chem.flDivNormalize_sum_f64
#print axioms Chem.flDivNormalize_nonneg
#print axioms Chem.flSum_abs_bound
#print axioms Chem.flSum_abs_bound_f64
