import ChemProofs.Props.C15
import ChemProofs.Model.PoissonRange
/-
C15, extended domain — theorems about the range-aware Poisson model `poissonR` (the model of
`poisson_approximation_impl` WITH the `is_finite` branch that pushes `0.0`).
-/
namespace Chem

/-! ### the intensity loop with the overflow branch -/

theorem poissonIntsR_length (Ω lam : Rat) (k i : Nat) (s : PoisState) : (poissonIntsR Ω lam k i s).length = k := by
  induction k generalizing i s with
  | zero => rfl
  | succ k ih => simp [poissonIntsR, ih]

theorem pushR_nonneg (Ω : Rat) (s : PoisState) (h : s.Good) : 0 ≤ pushR Ω s := by
  unfold pushR
  split
  · exact cur_nonneg s h
  · exact le_refl _

theorem poissonIntsR_nonneg (Ω lam : Rat) (hl : 0 ≤ lam) (k i : Nat) (hi : 1 ≤ i) (s : PoisState) (h : s.Good) :
    ∀ x ∈ poissonIntsR Ω lam k i s, 0 ≤ x := by
  induction k generalizing i s with
  | zero => simp [poissonIntsR]
  | succ k ih =>
    intro x hx
    simp only [poissonIntsR, List.mem_cons] at hx
    rcases hx with rfl | hx
    · exact pushR_nonneg _ _ (pNext_good lam hl s i hi h)
    · exact ih (i + 1) (by omega) _ (pNext_good lam hl s i hi h) x hx

/-- 1. exactly `n` peaks -/
theorem poissonR_len (Ω mass : Rat) (n : Nat) (z : Int) (lf ns pr : Rat) :
    (poissonR Ω mass n z lf ns pr).length = n := by
  unfold poissonR
  split
  · simp_all
  · simp [poissonIntsR_length]; omega

/-- 2. the same m/z ladder as the plain model -/
theorem poissonR_mz (Ω mass : Rat) (n : Nat) (z : Int) (lf ns pr : Rat) :
    (poissonR Ω mass n z lf ns pr).map (·.mz) =
      (List.range n).map (fun (i : Nat) => chargedMz (mass + ((i : Nat) : Rat) * ns) z pr) := by
  by_cases hn : n = 0
  · simp [poissonR, hn]
  · simp only [poissonR, hn, if_false]
    rw [map_mz_zipIdx _ 0 _ (fun i => chargedMz (mass + ((i : Nat) : Rat) * ns) z pr)]
    simp only [List.length_cons, poissonIntsR_length, List.range_eq_range']
    congr 1
    congr 1
    omega

theorem poissonR_mz_eq_poisson (Ω mass : Rat) (n : Nat) (z : Int) (lf ns pr : Rat) :
    (poissonR Ω mass n z lf ns pr).map (·.mz) = (poisson mass n z lf ns pr).map (·.mz) := by
  rw [poissonR_mz, poisson_mz]

/-- the un-normalised total is at least 1 (first term 1, every pushed value ≥ 0) -/
theorem poissonR_tot_ge_one (Ω lam : Rat) (hl : 0 ≤ lam) (k : Nat) :
    1 ≤ ((1 : Rat) :: poissonIntsR Ω lam k 1 ⟨1, 1⟩).sum := by
  have hgood : (⟨1, 1⟩ : PoisState).Good := ⟨by norm_num, by norm_num⟩
  have := sum_nonneg_of _ (poissonIntsR_nonneg Ω lam hl k 1 (le_refl _) ⟨1, 1⟩ hgood)
  simp only [List.sum_cons]; linarith

/-- 3. intensities are non-negative and sum to exactly 1 (mass ≥ 0, n ≥ 1), for ANY range bound `Ω` -/
theorem poissonR_sum (Ω mass : Rat) (n : Nat) (z : Int) (lf ns pr : Rat) (_hΩ : 1 ≤ Ω) (hm : 0 ≤ mass) (hlf : 0 < lf)
    (hn : 1 ≤ n) :
    (∀ q ∈ poissonR Ω mass n z lf ns pr, 0 ≤ q.int) ∧ total (poissonR Ω mass n z lf ns pr) = 1 := by
  have hl : 0 ≤ mass / lf := div_nonneg hm hlf.le
  have hgood : (⟨1, 1⟩ : PoisState).Good := ⟨by norm_num, by norm_num⟩
  have hnn := poissonIntsR_nonneg Ω (mass / lf) hl (n - 1) 1 (le_refl _) ⟨1, 1⟩ hgood
  have htot : 0 < ((1 : Rat) :: poissonIntsR Ω (mass / lf) (n - 1) 1 ⟨1, 1⟩).sum :=
    lt_of_lt_of_le one_pos (poissonR_tot_ge_one Ω _ hl _)
  unfold total intensities
  have hn0 : ¬ n = 0 := by omega
  simp only [poissonR, hn0, if_false]
  constructor
  · intro q hq
    simp only [List.mem_map] at hq
    obtain ⟨⟨x, i⟩, hx, rfl⟩ := hq
    have hxm : x ∈ ((1 : Rat) :: poissonIntsR Ω (mass / lf) (n - 1) 1 ⟨1, 1⟩) :=
      fst_mem_of_mem_zipIdx _ 0 (x, i) hx
    have hx0 : 0 ≤ x := by
      simp only [List.mem_cons] at hxm
      rcases hxm with rfl | h
      · norm_num
      · exact hnn x h
    exact div_nonneg hx0 htot.le
  · rw [map_int_zipIdx _ 0 _ (fun i => chargedMz (mass + ((i : Nat) : Rat) * ns) z pr)]
    rw [sum_map_div, div_self htot.ne']

theorem poissonR_nonneg (Ω mass : Rat) (n : Nat) (z : Int) (lf ns pr : Rat) (hΩ : 1 ≤ Ω) (hm : 0 ≤ mass) (hlf : 0 < lf)
    (hn : 1 ≤ n) : ∀ q ∈ poissonR Ω mass n z lf ns pr, 0 ≤ q.int :=
  (poissonR_sum Ω mass n z lf ns pr hΩ hm hlf hn).1

theorem one_le_f64Max : (1 : Rat) ≤ f64Max := by decide +kernel

/-- the `f64` instance -/
theorem poissonR_f64_sum (mass : Rat) (n : Nat) (z : Int) (lf ns pr : Rat) (hm : 0 ≤ mass) (hlf : 0 < lf) (hn : 1 ≤ n) :
    (∀ q ∈ poissonR f64Max mass n z lf ns pr, 0 ≤ q.int) ∧ total (poissonR f64Max mass n z lf ns pr) = 1 :=
  poissonR_sum f64Max mass n z lf ns pr one_le_f64Max hm hlf hn

/-! ### closed form of the pushed values -/

/-- the value iteration `m` pushes: `λ^m / m!` if `λ^m ≤ Ω ∧ m! ≤ Ω`, else `0` -/
def pushAt (Ω lam : Rat) (m : Nat) : Rat := pushR Ω (stateAt lam m)

theorem pushAt_eq (Ω lam : Rat) (m : Nat) :
    pushAt Ω lam m = if lam ^ m ≤ Ω ∧ (m.factorial : Rat) ≤ Ω then pterm lam m else 0 := rfl

theorem poissonIntsR_stateAt (Ω lam : Rat) (k m : Nat) :
    poissonIntsR Ω lam k (m + 1) (stateAt lam m) = (List.range' (m + 1) k).map (pushAt Ω lam) := by
  induction k generalizing m with
  | zero => rfl
  | succ k ih =>
    simp only [poissonIntsR, pNext_stateAt, ih, List.range'_succ, List.map_cons, pushAt]

theorem poissonIntsR_closed (Ω lam : Rat) (k : Nat) :
    poissonIntsR Ω lam k 1 ⟨1, 1⟩ = (List.range' 1 k).map (pushAt Ω lam) := by
  have h := poissonIntsR_stateAt Ω lam k 0
  rw [stateAt_zero] at h
  exact h

/-- 4 (loop level). if every loop variable stays in range the two loops push the same values -/
theorem poissonIntsR_eq_poissonInts (Ω lam : Rat) (k : Nat)
    (h : ∀ i, 1 ≤ i → i ≤ k → lam ^ i ≤ Ω ∧ (i.factorial : Rat) ≤ Ω) :
    poissonIntsR Ω lam k 1 ⟨1, 1⟩ = poissonInts lam k 1 ⟨1, 1⟩ := by
  have h2 := poissonInts_stateAt lam k 0
  rw [stateAt_zero] at h2
  rw [poissonIntsR_closed, h2]
  apply List.map_congr_left
  intro i hi
  rw [List.mem_range'_1] at hi
  rw [pushAt_eq, if_pos (h i hi.1 (by omega))]

/-- 4. **the two models agree where no loop variable leaves the range**
    (`∀ i < n, λ^i ≤ Ω ∧ i! ≤ Ω`, `λ = mass / lambda_factor`) -/
theorem poissonR_eq_poisson (Ω mass : Rat) (n : Nat) (z : Int) (lf ns pr : Rat)
    (h : ∀ i, i < n → (mass / lf) ^ i ≤ Ω ∧ (i.factorial : Rat) ≤ Ω) :
    poissonR Ω mass n z lf ns pr = poisson mass n z lf ns pr := by
  unfold poissonR poisson
  by_cases hn : n = 0
  · simp [hn]
  · simp only [hn, if_false]
    rw [poissonIntsR_eq_poissonInts Ω (mass / lf) (n - 1) (fun i _ hi => h i (by omega))]

/-- the same, stated on the loop states -/
theorem poissonR_eq_poisson_states (Ω mass : Rat) (n : Nat) (z : Int) (lf ns pr : Rat)
    (h : ∀ i, i < n → (stateAt (mass / lf) i).p ≤ Ω ∧ (stateAt (mass / lf) i).f ≤ Ω) :
    poissonR Ω mass n z lf ns pr = poisson mass n z lf ns pr :=
  poissonR_eq_poisson Ω mass n z lf ns pr h

/-- hence C15's ratio law holds on `poissonR` wherever the variables stay in range -/
theorem poissonR_ratio (Ω mass : Rat) (n : Nat) (z : Int) (lf ns pr : Rat) (hm : 0 ≤ mass) (hlf : 0 < lf)
    (h : ∀ i, i < n → (mass / lf) ^ i ≤ Ω ∧ (i.factorial : Rat) ≤ Ω)
    (i : Nat) (hi : 1 ≤ i) (hin : i < n)
    (p q : Peak) (hp : (poissonR Ω mass n z lf ns pr)[i]? = some p) (hq : (poissonR Ω mass n z lf ns pr)[i-1]? = some q) :
    p.int * (i : Rat) = q.int * (mass / lf) := by
  rw [poissonR_eq_poisson Ω mass n z lf ns pr h] at hp hq
  exact poisson_ratio mass n z lf ns pr hm hlf i hi hin p q hp hq

/-! ### zeros form a suffix (`λ ≥ 1`) -/

theorem factorial_cast_mono {i j : Nat} (h : i ≤ j) : ((i.factorial : Nat) : Rat) ≤ (j.factorial : Rat) := by
  exact_mod_cast Nat.factorial_le h

/-- the loop variables are non-decreasing for `λ ≥ 1` -/
theorem stateAt_mono (lam : Rat) (hl : 1 ≤ lam) {i j : Nat} (h : i ≤ j) :
    (stateAt lam i).p ≤ (stateAt lam j).p ∧ (stateAt lam i).f ≤ (stateAt lam j).f :=
  ⟨pow_le_pow_right₀ hl h, factorial_cast_mono h⟩

/-- 5. **sticky**: once a variable has exceeded `Ω` at iteration `i`, every later iteration pushes 0 -/
theorem pushR_zero_sticky (Ω lam : Rat) (hl : 1 ≤ lam) (i j : Nat) (hij : i ≤ j)
    (h : ¬ ((stateAt lam i).p ≤ Ω ∧ (stateAt lam i).f ≤ Ω)) : pushR Ω (stateAt lam j) = 0 := by
  have hm := stateAt_mono lam hl hij
  unfold pushR
  rw [if_neg]
  rintro ⟨h1, h2⟩
  exact h ⟨le_trans hm.1 h1, le_trans hm.2 h2⟩

theorem pterm_pos (lam : Rat) (hl : 1 ≤ lam) (m : Nat) : 0 < pterm lam m := by
  unfold pterm
  apply div_pos (pow_pos (lt_of_lt_of_le one_pos hl) m)
  exact_mod_cast Nat.factorial_pos m

/-- for `λ ≥ 1` a pushed value is 0 exactly when a variable is out of range -/
theorem pushAt_eq_zero_iff (Ω lam : Rat) (hl : 1 ≤ lam) (m : Nat) :
    pushAt Ω lam m = 0 ↔ ¬ (lam ^ m ≤ Ω ∧ (m.factorial : Rat) ≤ Ω) := by
  rw [pushAt_eq]
  split
  · rename_i h; simp [h, (pterm_pos lam hl m).ne']
  · rename_i h; simp [h]

/-- closed-form version: a zero at `i` forces zeros at every `j ≥ i` -/
theorem pushAt_zero_sticky (Ω lam : Rat) (hl : 1 ≤ lam) (i j : Nat) (hij : i ≤ j) (h : pushAt Ω lam i = 0) :
    pushAt Ω lam j = 0 :=
  pushR_zero_sticky Ω lam hl i j hij ((pushAt_eq_zero_iff Ω lam hl i).1 h)

/-- list version: in the pushed intensities a zero is followed only by zeros -/
theorem poissonIntsR_zero_suffix (Ω lam : Rat) (hl : 1 ≤ lam) (k i j : Nat) (hij : i ≤ j)
    (hj : j < (poissonIntsR Ω lam k 1 ⟨1, 1⟩).length)
    (h : (poissonIntsR Ω lam k 1 ⟨1, 1⟩)[i]'(by omega) = 0) :
    (poissonIntsR Ω lam k 1 ⟨1, 1⟩)[j] = 0 := by
  simp only [poissonIntsR_closed, List.getElem_map, List.getElem_range'] at h ⊢
  exact pushAt_zero_sticky Ω lam hl _ _ (by omega) h

theorem pushAt_zero (Ω lam : Rat) (hΩ : 1 ≤ Ω) : pushAt Ω lam 0 = 1 := by
  rw [pushAt_eq, if_pos, pterm_zero]
  simpa using hΩ

/-- the whole un-normalised list in closed form (needs `1 ≤ Ω`: the first term is pushed unconditionally) -/
theorem poissonR_ints_eq (Ω lam : Rat) (hΩ : 1 ≤ Ω) (n : Nat) (hn : n ≠ 0) :
    (1 : Rat) :: poissonIntsR Ω lam (n - 1) 1 ⟨1, 1⟩ = (List.range n).map (pushAt Ω lam) := by
  obtain ⟨k, rfl⟩ : ∃ k, n = k + 1 := ⟨n - 1, by omega⟩
  rw [poissonIntsR_closed, List.range_eq_range', List.range'_succ, List.map_cons, pushAt_zero Ω lam hΩ]
  simp

/-- closed form of the pattern: peak `i` has intensity `pushAt i / Σ_{j<n} pushAt j` -/
theorem poissonR_closed (Ω mass : Rat) (hΩ : 1 ≤ Ω) (n : Nat) (z : Int) (lf ns pr : Rat) (i : Nat) (p : Peak)
    (hp : (poissonR Ω mass n z lf ns pr)[i]? = some p) :
    p.int = pushAt Ω (mass / lf) i / ((List.range n).map (pushAt Ω (mass / lf))).sum := by
  have hlen := poissonR_len Ω mass n z lf ns pr
  have hin : i < n := by
    rw [← hlen]
    exact (List.getElem?_eq_some_iff.1 hp).1
  have hn : ¬ n = 0 := by omega
  have hint : ((poissonR Ω mass n z lf ns pr).map (·.int))[i]? = some p.int := by
    rw [List.getElem?_map, hp]; rfl
  simp only [poissonR, hn, if_false] at hint
  rw [map_int_zipIdx _ 0 _ (fun i => chargedMz (mass + ((i : Nat) : Rat) * ns) z pr)] at hint
  rw [poissonR_ints_eq Ω _ hΩ n hn] at hint
  rw [List.getElem?_map, List.getElem?_map, List.getElem?_range hin] at hint
  simp only [Option.map_some, Option.some.injEq] at hint
  rw [← hint]

/-- pattern version: in `poissonR` (mass ≥ lambda_factor, i.e. `λ ≥ 1`) a zero intensity is followed only by zeros -/
theorem poissonR_zero_suffix (Ω mass : Rat) (hΩ : 1 ≤ Ω) (n : Nat) (z : Int) (lf ns pr : Rat) (hlf : 0 < lf)
    (hml : lf ≤ mass) (i j : Nat) (hij : i ≤ j) (p q : Peak)
    (hp : (poissonR Ω mass n z lf ns pr)[i]? = some p) (hq : (poissonR Ω mass n z lf ns pr)[j]? = some q)
    (h0 : p.int = 0) : q.int = 0 := by
  have hl : 1 ≤ mass / lf := by rw [le_div_iff₀ hlf]; linarith
  have hlen := poissonR_len Ω mass n z lf ns pr
  have hjn : j < n := by rw [← hlen]; exact (List.getElem?_eq_some_iff.1 hq).1
  have hn : ¬ n = 0 := by omega
  have htot : 0 < ((List.range n).map (pushAt Ω (mass / lf))).sum := by
    rw [← poissonR_ints_eq Ω _ hΩ n hn]
    exact lt_of_lt_of_le one_pos (poissonR_tot_ge_one Ω _ (le_trans zero_le_one hl) _)
  rw [poissonR_closed Ω mass hΩ n z lf ns pr i p hp] at h0
  rw [poissonR_closed Ω mass hΩ n z lf ns pr j q hq]
  have hi0 : pushAt Ω (mass / lf) i = 0 := by
    rcases div_eq_zero_iff.1 h0 with h | h
    · exact h
    · exact absurd h htot.ne'
  rw [pushAt_zero_sticky Ω _ hl i j hij hi0, zero_div]

/-! ### non-vacuity -/

/-- in range: the `f64` model returns the plain pattern -/
example : (poissonR f64Max 1800 3 1 1800 1 1).map (·.int) = [2/5, 2/5, 1/5] := by decide +kernel
example : poissonR f64Max 1800 3 1 1800 1 1 = poisson 1800 3 1 1800 1 1 := by decide +kernel
/-- out of range (`Ω = 2`, `λ = 3`): `λ^1 = 3 > 2`, zeros are pushed from iteration 1 on, the total is still 1 -/
example : (poissonR 2 5400 3 1 1800 1 1).map (·.int) = [1, 0, 0] := by decide +kernel
/-- `Ω = 4`, `λ = 3`: the term `3` is pushed, `9 > 4` is not -/
example : (poissonR 4 5400 3 1 1800 1 1).map (·.int) = [1/4, 3/4, 0] := by decide +kernel
example : (poisson 5400 3 1 1800 1 1).map (·.int) = [2/17, 6/17, 9/17] := by decide +kernel
/-- the factorial leaves the range: `Ω = 5`, `λ = 1`, `3! = 6 > 5` -/
example : (poissonR 5 1800 4 1 1800 1 1).map (·.int) = [2/5, 2/5, 1/5, 0] := by decide +kernel

end Chem
