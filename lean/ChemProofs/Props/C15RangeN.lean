import ChemProofs.Props.C15Range
/-
C15, extended domain — the peak-count search `poisson_approximate_n_peaks_of_impl` WITH its range behaviour
(`poissonNLoopR` / `poissonNR` of `Model/PoissonRange.lean`).
-/
namespace Chem

/-- the range-aware loop returns a count in `i ..= maxIter` -/
theorem poissonNLoopR_range (Ω lam target : Rat) (maxIter fuel i : Nat) (s : PoisState) (acc : Rat) (hi : i ≤ maxIter) :
    i ≤ poissonNLoopR Ω lam target maxIter fuel i s acc ∧ poissonNLoopR Ω lam target maxIter fuel i s acc ≤ maxIter := by
  induction fuel generalizing i s acc with
  | zero => exact ⟨hi, Nat.le_refl _⟩
  | succ f ih =>
    simp only [poissonNLoopR]
    by_cases hlt : i < maxIter
    · simp only [hlt, if_true]
      by_cases hp : Ω < (pNext lam s i).p
      · simp only [hp, if_true]
        split
        · exact ⟨hi, Nat.le_refl _⟩
        · exact ⟨Nat.le_refl _, hi⟩
      · simp only [hp, if_false]
        generalize (if Ω < (pNext lam s i).f then 0 else (pNext lam s i).cur) = c
        split
        · exact ⟨Nat.le_refl _, hi⟩
        · have := ih (i + 1) (pNext lam s i) (acc + c) (by omega)
          exact ⟨by omega, this.2⟩
    · simp only [hlt, if_false]
      exact ⟨hi, Nat.le_refl _⟩

/-- 1. **a count in `1 ..= maxIter`**, for every range bound, mass and threshold (overflowing terms included) -/
theorem poissonNR_range (Ω mass lf t : Rat) (maxIter : Nat) (h : 1 ≤ maxIter) :
    1 ≤ poissonNR Ω mass lf t maxIter ∧ poissonNR Ω mass lf t maxIter ≤ maxIter :=
  poissonNLoopR_range Ω _ _ maxIter maxIter 1 ⟨1, 1⟩ 1 h

theorem poissonNLoopR_mono (Ω lam tgt tgt' : Rat) (h : tgt' ≤ tgt) (maxIter fuel i : Nat) (s : PoisState) (acc : Rat)
    (hi : i ≤ maxIter) :
    poissonNLoopR Ω lam tgt maxIter fuel i s acc ≤ poissonNLoopR Ω lam tgt' maxIter fuel i s acc := by
  induction fuel generalizing i s acc with
  | zero => exact Nat.le_refl _
  | succ f ih =>
    simp only [poissonNLoopR]
    by_cases hlt : i < maxIter
    · simp only [hlt, if_true]
      by_cases hp : Ω < (pNext lam s i).p
      · simp only [hp, if_true]
        exact Nat.le_refl _
      · simp only [hp, if_false]
        generalize (if Ω < (pNext lam s i).f then 0 else (pNext lam s i).cur) = c
        by_cases h1 : c / (acc + c) < tgt
        · simp only [h1, if_true]
          split
          · exact Nat.le_refl _
          · exact Nat.le_trans (Nat.le_succ i) (poissonNLoopR_range Ω lam tgt' maxIter f (i + 1) _ _ (by omega)).1
        · have h2 : ¬ c / (acc + c) < tgt' := fun hh => h1 (lt_of_lt_of_le hh h)
          simp only [h1, h2, if_false]
          exact ih (i + 1) _ _ (by omega)
    · simp only [hlt, if_false]
      exact Nat.le_refl _

/-- 2. **the count never decreases when `t` increases**, for every range bound and mass -/
theorem poissonNR_mono (Ω mass lf t t' : Rat) (maxIter : Nat) (h : t ≤ t') (hm : 1 ≤ maxIter) :
    poissonNR Ω mass lf t maxIter ≤ poissonNR Ω mass lf t' maxIter :=
  poissonNLoopR_mono Ω _ (1 - t) (1 - t') (by linarith) maxIter maxIter 1 ⟨1, 1⟩ 1 hm

/-- loop level: started at `stateAt lam m`, the two loops agree if every state visited is in range -/
theorem poissonNLoopR_eq_stateAt (Ω lam target : Rat) (maxIter fuel m : Nat) (acc : Rat)
    (h : ∀ i, i < maxIter → (stateAt lam i).p ≤ Ω ∧ (stateAt lam i).f ≤ Ω) :
    poissonNLoopR Ω lam target maxIter fuel (m + 1) (stateAt lam m) acc =
      poissonNLoop lam target maxIter fuel (m + 1) (stateAt lam m) acc := by
  induction fuel generalizing m acc with
  | zero => rfl
  | succ f ih =>
    simp only [poissonNLoopR, poissonNLoop, pNext_stateAt]
    by_cases hlt : m + 1 < maxIter
    · have hr := h (m + 1) hlt
      have h1 : ¬ Ω < (stateAt lam (m + 1)).p := not_lt.2 hr.1
      have h2 : ¬ Ω < (stateAt lam (m + 1)).f := not_lt.2 hr.2
      simp only [hlt, h1, h2, if_true, if_false]
      rw [ih (m + 1)]
    · simp only [hlt, if_false]

/-- 3. **the range-aware search agrees with the plain one where no loop variable leaves the range**
    (`∀ i < maxIter, λ^i ≤ Ω ∧ i! ≤ Ω`, `λ = mass / lambda_factor`), stated on the loop states -/
theorem poissonNR_eq_poissonN_states (Ω mass lf t : Rat) (maxIter : Nat)
    (h : ∀ i, i < maxIter → (stateAt (mass / lf) i).p ≤ Ω ∧ (stateAt (mass / lf) i).f ≤ Ω) :
    poissonNR Ω mass lf t maxIter = poissonN mass lf t maxIter := by
  have := poissonNLoopR_eq_stateAt Ω (mass / lf) (1 - t) maxIter maxIter 0 1 h
  rw [stateAt_zero] at this
  exact this

theorem poissonNR_eq_poissonN (Ω mass lf t : Rat) (maxIter : Nat)
    (h : ∀ i, i < maxIter → (mass / lf) ^ i ≤ Ω ∧ (i.factorial : Rat) ≤ Ω) :
    poissonNR Ω mass lf t maxIter = poissonN mass lf t maxIter :=
  poissonNR_eq_poissonN_states Ω mass lf t maxIter h

/-- hence, in range, the minimality characterisation of C15 holds for the range-aware search -/
theorem poissonNR_minimal (Ω mass lf t : Rat) (maxIter : Nat) (hm : 1 ≤ maxIter)
    (h : ∀ i, i < maxIter → (mass / lf) ^ i ≤ Ω ∧ (i.factorial : Rat) ≤ Ω) :
    1 ≤ poissonNR Ω mass lf t maxIter ∧ poissonNR Ω mass lf t maxIter ≤ maxIter ∧
    (∀ i, 1 ≤ i → i < poissonNR Ω mass lf t maxIter → ¬ pratio (mass / lf) i < 1 - t) ∧
    (poissonNR Ω mass lf t maxIter < maxIter → pratio (mass / lf) (poissonNR Ω mass lf t maxIter) < 1 - t) := by
  rw [poissonNR_eq_poissonN Ω mass lf t maxIter h]
  exact poissonN_minimal mass lf t maxIter hm

/-! ### non-vacuity -/

/-- in range (`f64`, 100 iterations: `99! < f64::MAX`): the same count as the plain search -/
example : poissonNR f64Max 1800 1800 (1/2) 100 = 2 := by decide +kernel
example : poissonN 1800 1800 (1/2) 100 = 2 := by decide +kernel
/-- 4. the early return fires: `Ω = 20`, `λ = 3`, `t = 999/1000`: `λ^3 = 27 > 20` with `3! = 6` in range, the search
    stops at 3 where the plain search goes on to 10 -/
example : poissonNR 20 5400 1800 (999/1000) 255 = 3 := by decide +kernel
example : poissonN 5400 1800 (999/1000) 255 = 10 := by decide +kernel
/-- NaN poisoning: both variables beyond `Ω = 5` at `i = 3` (`2^3 = 8`, `3! = 6`): `max_iter` is returned -/
example : poissonNR 5 3600 1800 (999/1000) 255 = 255 := by decide +kernel
/-- only the factorial beyond `Ω = 5` (`λ = 1`, `3! = 6`): the term is 0, `0 / acc < 1 - t`, the search stops at 3 -/
example : poissonNR 5 1800 1800 (9/10) 255 = 3 := by decide +kernel
example : poissonN 1800 1800 (9/10) 255 = 3 := by decide +kernel

end Chem
