import ChemProofs.Model.Comp
import ChemProofs.Spec.SpecText
import ChemProofs.Lemmas.Digits
/-
C16 — element-specification text and string-keyed access are total and consistent
(parametric part; the instantiation at the regenerated table is `Inst/C16.lean`).
-/
namespace Chem

/-- parsing never panics: the result is a value or an error value, for every string and table -/
theorem spec_no_panic (T : Table) (s : List Nat) : parseSpec T s ≠ .panic := by
  unfold parseSpec
  repeat' split
  all_goals simp

theorem splitFirst_some (c : Nat) (s a b : List Nat) (h : splitFirst c s = some (a, b)) :
    s = a ++ c :: b ∧ c ∉ a := by
  induction s generalizing a with
  | nil => simp [splitFirst] at h
  | cons x xs ih =>
    simp only [splitFirst] at h
    by_cases hx : x = c
    · have : (x == c) = true := by simpa using hx
      simp only [this, if_true, Option.some.injEq, Prod.mk.injEq] at h
      obtain ⟨rfl, rfl⟩ := h
      simp [hx]
    · have : (x == c) = false := by simpa using hx
      simp only [this, Bool.false_eq_true, if_false] at h
      cases hs : splitFirst c xs with
      | none => simp [hs] at h
      | some p =>
        obtain ⟨a', b'⟩ := p
        simp only [hs, Option.some.injEq, Prod.mk.injEq] at h
        obtain ⟨rfl, rfl⟩ := h
        have := ih a' hs
        refine ⟨by rw [this.1]; simp, ?_⟩
        simp only [List.mem_cons, not_or]
        exact ⟨fun e => hx e.symm, this.2⟩

theorem stripLast_some (c : Nat) (s t : List Nat) (h : stripLast c s = some t) : s = t ++ [c] := by
  unfold stripLast at h
  cases hl : s.getLast? with
  | none => simp [hl] at h
  | some l =>
    simp only [hl] at h
    by_cases hc : l = c
    · have : (l == c) = true := by simpa using hc
      simp only [this, if_true, Option.some.injEq] at h
      subst h
      have hne : s ≠ [] := by intro e; simp [e] at hl
      have := List.dropLast_concat_getLast hne
      rw [List.getLast?_eq_getLast hne] at hl
      injection hl with hl
      rw [hl, hc] at this
      exact this.symm
    · have : (l == c) = false := by simpa using hc
      simp [this] at h

/-- **soundness**: parsing succeeds only for a table symbol optionally followed by one bracketed
    isotope number that the element has -/
theorem spec_sound (T : Table) (s : List Nat) (k : Key) (h : parseSpec T s = .ok k) :
    (∃ e, T.find? s = some e ∧ k = (e.sym, 0) ∧ 91 ∉ s) ∨
    (∃ e sym num, T.find? sym = some e ∧ s = sym ++ [91] ++ num ++ [93] ∧ 91 ∉ sym ∧
        parseU16 num = some k.2 ∧ (e.iso? k.2).isSome ∧ k.1 = e.sym) := by
  unfold parseSpec at h
  split at h
  · rename_i hsf
    split at h
    · rename_i e he
      injection h with h
      have hnot : 91 ∉ s := by
        intro hm
        have : ∀ (l : List Nat), 91 ∈ l → splitFirst 91 l ≠ none := by
          intro l hl
          induction l with
          | nil => simp at hl
          | cons x xs ih =>
            simp only [splitFirst]
            by_cases hx : x = 91
            · simp [hx]
            · have : (x == 91) = false := by simpa using hx
              simp only [this, Bool.false_eq_true, if_false]
              have hin : 91 ∈ xs := by
                rcases List.mem_cons.1 hl with h1 | h1
                · exact absurd h1.symm hx
                · exact h1
              cases hh : splitFirst 91 xs with
              | none => exact absurd hh (ih hin)
              | some p => simp
        exact this s hm hsf
      exact Or.inl ⟨e, he, h.symm, hnot⟩
    · cases h
  · rename_i sym rest hsf
    split at h
    · cases h
    · rename_i num hst
      split at h
      · cases h
      · rename_i e he
        split at h
        · cases h
        · rename_i iso hiso
          split at h
          · rename_i hsome
            injection h with h
            have h1 := splitFirst_some 91 s sym rest hsf
            have h2 := stripLast_some 93 rest num hst
            refine Or.inr ⟨e, sym, num, he, ?_, h1.2, ?_, ?_, ?_⟩
            · rw [h1.1, h2]; simp
            · rw [← h]; exact hiso
            · rw [← h]; exact hsome
            · rw [← h]
          · cases h

/-- reading by a string that denotes nothing present returns 0 -/
theorem str_read_zero (cc : CharClass) (T : Table) (c : Comp) (s : Sym)
    (h1 : c.ents.has (s, 0) = false) (h2 : ∀ k, parseSpec T s = .ok k → c.ents.has k = false) :
    c.strIndex cc T s = 0 ∧ c.ents.getStr s = 0 := by
  have hz : ∀ k, c.ents.has k = false → c.ents.get k = 0 := by
    intro k hk
    unfold Ents.get
    unfold Ents.has at hk
    cases hf : c.ents.find? (fun e => e.1 == k) with
    | none => rfl
    | some e =>
      have := List.find?_some hf
      have hm := List.mem_of_find?_eq_some hf
      have : c.ents.any (fun e => e.1 == k) = true := List.any_eq_true.2 ⟨e, hm, this⟩
      rw [this] at hk; cases hk
  refine ⟨?_, hz _ h1⟩
  unfold Comp.strIndex
  split
  · exact hz _ h1
  · rfl
  · split
    · rename_i k hk
      exact hz k (h2 k hk)
    · rfl

/-- indexing by a string that parses to `k`, provided the quick pre-check does not dismiss it,
    returns the same count as access by the parsed specification (`T.find?` returns elements
    stored under their own symbol: C12 `own_symbol`) -/
theorem str_read_agrees (cc : CharClass) (T : Table) (c : Comp) (s : Sym) (k : Key)
    (hown : ∀ x e, T.find? x = some e → e.sym = x)
    (hk : parseSpec T s = .ok k) (hq : quickCheckStr cc s ≠ .no)
    (hyes : quickCheckStr cc s = .yes → 91 ∉ s) :
    c.strIndex cc T s = c.ents.get k := by
  unfold Comp.strIndex
  split
  · rename_i hy
    have hnb := hyes hy
    rcases spec_sound T s k hk with ⟨e, he, hke, _⟩ | ⟨e, sym, num, _, hs, _⟩
    · rw [hke, hown s e he]; rfl
    · exact absurd (by rw [hs]; simp) hnb
  · rename_i hn; exact absurd hn hq
  · simp [hk]

/-- `get_str` by a valid bracket-free symbol returns the same count as access by the parsed
    specification (list and map types; the enum's goes through the string index) -/
theorem getStr_agrees (T : Table) (c : Comp) (s : Sym) (k : Key)
    (hown : ∀ x e, T.find? x = some e → e.sym = x) (hnb : 91 ∉ s) (hk : parseSpec T s = .ok k) :
    c.ents.getStr s = c.ents.get k := by
  rcases spec_sound T s k hk with ⟨e, he, hke, _⟩ | ⟨e, sym, num, _, hs, _⟩
  · rw [hke, hown s e he]; rfl
  · exact absurd (by rw [hs]; simp) hnb

/-! ### round trip `Display` → `parse_with` (TASK K, part 1) — parametric in the table.
All of `spec_roundtrip`, `spec_accepts_only`, `displayKey_inj_on_valid` are fully proved (nothing missing). -/

theorem splitFirst_append_of_not_mem (c : Nat) (a b : List Nat) (h : c ∉ a) :
    splitFirst c (a ++ c :: b) = some (a, b) := by
  induction a with
  | nil => simp [splitFirst]
  | cons x xs ih =>
    simp only [List.mem_cons, not_or] at h
    have hx : (x == c) = false := by simpa using fun e => h.1 e.symm
    simp only [List.cons_append, splitFirst, hx, Bool.false_eq_true, if_false, ih h.2]

theorem splitFirst_none_of_not_mem (c : Nat) (s : List Nat) (h : c ∉ s) : splitFirst c s = none := by
  induction s with
  | nil => rfl
  | cons x xs ih =>
    simp only [List.mem_cons, not_or] at h
    have hx : (x == c) = false := by simpa using fun e => h.1 e.symm
    simp only [splitFirst, hx, Bool.false_eq_true, if_false, ih h.2]

theorem stripLast_concat (c : Nat) (t : List Nat) : stripLast c (t ++ [c]) = some t := by
  simp [stripLast]

theorem spec_roundtrip (T : Table) (e : Elem) (he : T.find? e.sym = some e) (hnb : 91 ∉ e.sym) (iso : Nat)
    (hiso : iso = 0 ∨ (iso ≤ 65535 ∧ (e.iso? iso).isSome)) :
    parseSpec T (displayKey (e.sym, iso)) = .ok (e.sym, iso) := by
  by_cases h0 : iso = 0
  · subst h0
    simp only [displayKey, beq_self_eq_true, if_true, parseSpec, splitFirst_none_of_not_mem 91 _ hnb, he]
  · rcases hiso with h | ⟨hle, hsome⟩
    · exact absurd h h0
    · have hb : (iso == 0) = false := by simpa using h0
      have htxt : displayKey (e.sym, iso) = e.sym ++ 91 :: (natDigits iso ++ [93]) := by
        simp [displayKey, hb]
      rw [htxt]
      simp only [parseSpec, splitFirst_append_of_not_mem 91 _ _ hnb, stripLast_concat, he,
        parseU16_natDigits iso hle, hsome, if_true]

theorem spec_accepts_only (T : Table) (s : List Nat) (k : Key) :
    (parseSpec T s = .ok k ∧ 91 ∉ s) ↔ ∃ e, T.find? s = some e ∧ k = (e.sym, 0) ∧ 91 ∉ s := by
  constructor
  · rintro ⟨h, hnb⟩
    rcases spec_sound T s k h with h1 | ⟨e, sym, num, _, hs, _⟩
    · exact h1
    · exact absurd (by rw [hs]; simp) hnb
  · rintro ⟨e, he, hk, hnb⟩
    refine ⟨?_, hnb⟩
    simp only [parseSpec, splitFirst_none_of_not_mem 91 _ hnb, he, hk]

/-- consequence: `Display` is injective on valid specifications (same text ⇒ same key) -/
theorem displayKey_inj_on_valid (T : Table) (e e' : Elem) (he : T.find? e.sym = some e) (he' : T.find? e'.sym = some e')
    (hnb : 91 ∉ e.sym) (hnb' : 91 ∉ e'.sym) (iso iso' : Nat)
    (hiso : iso = 0 ∨ (iso ≤ 65535 ∧ (e.iso? iso).isSome))
    (hiso' : iso' = 0 ∨ (iso' ≤ 65535 ∧ (e'.iso? iso').isSome))
    (h : displayKey (e.sym, iso) = displayKey (e'.sym, iso')) : (e.sym, iso) = (e'.sym, iso') := by
  have h1 := spec_roundtrip T e he hnb iso hiso
  have h2 := spec_roundtrip T e' he' hnb' iso' hiso'
  rw [h, h2] at h1
  injection h1 with h1
  exact h1.symm

end Chem
