import ChemProofs.Model.CBinding
import ChemProofs.Props.C05
import ChemProofs.Props.C16
/-
C17 — the C binding mirrors the Rust API, reports errors by code, never aborts (on the model),
and keeps its handle table balanced.
-/
namespace Chem

/-- **no call aborts**: for every call within the contract the outcome is a value, never `.panic`
    (lifted from `parse_no_panic` (C05) and `spec_no_panic` (C16); reads are total) -/
theorem ffi_no_abort (cc : CharClass) (T : Table) (m : Key → Int) (st : CState) (op : COp)
    (r : Res (CState × COut)) (h : cstep cc T m st op = some r) : r ≠ .panic := by
  cases op <;> simp only [cstep] at h
  case new => cases h; simp
  case parse s =>
    have hp := parse_no_panic cc T s
    cases hps : parseFormula cc T s <;> simp only [hps] at h hp
    · cases h; simp
    · cases h; simp
    · exact absurd rfl hp
  case copy hh =>
    cases hf : st.find hh <;> simp only [hf, Option.map_none, Option.map_some] at h
    · cases h
    · cases h; simp
  case get hh s =>
    cases hf : st.find hh <;> simp only [hf, Option.map_none, Option.map_some] at h
    · cases h
    · cases h; simp
  case set hh s n =>
    cases hf : st.find hh <;> simp only [hf, Option.map_none, Option.map_some] at h
    · cases h
    · have hp := spec_no_panic T s
      cases hps : parseSpec T s <;> simp only [hps] at h hp
      · cases h; simp
      · cases h; simp
      · exact absurd rfl hp
  case inc hh s n =>
    cases hf : st.find hh <;> simp only [hf, Option.map_none, Option.map_some] at h
    · cases h
    · have hp := spec_no_panic T s
      cases hps : parseSpec T s <;> simp only [hps] at h hp
      · cases h; simp
      · cases h; simp
      · exact absurd rfl hp
  case add a b =>
    split at h
    · cases h
    · split at h
      · cases h; simp
      · cases h
  case sub a b =>
    split at h
    · cases h
    · split at h
      · cases h; simp
      · cases h
  case scale hh n =>
    cases hf : st.find hh <;> simp only [hf, Option.map_none, Option.map_some] at h
    · cases h
    · cases h; simp
  case mass hh =>
    cases hf : st.find hh <;> simp only [hf, Option.map_none, Option.map_some] at h
    · cases h
    · cases h; simp
  case free hh =>
    cases hf : st.find hh <;> simp only [hf, Option.map_none, Option.map_some] at h
    · cases h
    · cases h; simp

/-- **errors by code**: a non-zero return code leaves the handle table untouched and the
    out-pointer null -/
theorem ffi_error_leaves_state (cc : CharClass) (T : Table) (m : Key → Int) (st st' : CState) (op : COp) (o : COut)
    (h : cstep cc T m st op = some (.ok (st', o))) (hrc : o.rc ≠ 0) : st' = st ∧ o.handle = none := by
  cases op <;> simp only [cstep] at h
  case new => cases h; simp at hrc
  case parse s =>
    cases hps : parseFormula cc T s <;> simp only [hps] at h
    · cases h; simp at hrc
    · cases h; exact ⟨rfl, rfl⟩
    · cases h
  case copy hh =>
    cases hf : st.find hh <;> simp only [hf, Option.map_none, Option.map_some] at h
    · cases h
    · cases h; simp at hrc
  case get hh s =>
    cases hf : st.find hh <;> simp only [hf, Option.map_none, Option.map_some] at h
    · cases h
    · cases h; simp at hrc
  case set hh s n =>
    cases hf : st.find hh <;> simp only [hf, Option.map_none, Option.map_some] at h
    · cases h
    · cases hps : parseSpec T s <;> simp only [hps] at h
      · cases h; simp at hrc
      · cases h; exact ⟨rfl, rfl⟩
      · cases h
  case inc hh s n =>
    cases hf : st.find hh <;> simp only [hf, Option.map_none, Option.map_some] at h
    · cases h
    · cases hps : parseSpec T s <;> simp only [hps] at h
      · cases h; simp at hrc
      · cases h; exact ⟨rfl, rfl⟩
      · cases h
  case add a b =>
    split at h
    · cases h
    · split at h
      · cases h; simp at hrc
      · cases h
  case sub a b =>
    split at h
    · cases h
    · split at h
      · cases h; simp at hrc
      · cases h
  case scale hh n =>
    cases hf : st.find hh <;> simp only [hf, Option.map_none, Option.map_some] at h
    · cases h
    · cases h; simp at hrc
  case mass hh =>
    cases hf : st.find hh <;> simp only [hf, Option.map_none, Option.map_some] at h
    · cases h
    · cases h; simp at hrc
  case free hh =>
    cases hf : st.find hh <;> simp only [hf, Option.map_none, Option.map_some] at h
    · cases h
    · cases h; simp at hrc

/-- **parse_formula yields a handle exactly when the Rust parser accepts the text**, and the new
    handle holds the parsed composition -/
theorem ffi_parse_handle (cc : CharClass) (T : Table) (m : Key → Int) (st st' : CState) (s : List Nat) (o : COut)
    (h : cstep cc T m st (.parse s) = some (.ok (st', o))) :
    (o.handle.isSome ↔ ∃ ents, parseFormula cc T s = .ok ents) ∧
    (∀ ents, parseFormula cc T s = .ok ents → o.rc = 0 ∧ o.handle = some st.next ∧
        st'.live = st.live ++ [(st.next, ⟨.evec, ents, none⟩)]) := by
  simp only [cstep] at h
  cases hps : parseFormula cc T s <;> simp only [hps] at h
  · cases h; simp [CState.alloc]
  · cases h; simp
  · cases h

/-- mass / get on a handle are the Rust composition's -/
theorem ffi_reads (cc : CharClass) (T : Table) (m : Key → Int) (st : CState) (hh : Nat) (c : Comp) (s : List Nat)
    (hf : st.find hh = some c) :
    cstep cc T m st (.mass hh) = some (.ok (st, { rc := 0, value := some (c.mass m) })) ∧
    cstep cc T m st (.get hh s) = some (.ok (st, { rc := 0, value := some (c.getStr cc T s) })) := by
  simp [cstep, hf]

/-- **handle bookkeeping**: the number of live handles changes by +1 on a successful creation,
    by −1 on `free`, and not at all otherwise -/
theorem handles_balance (cc : CharClass) (T : Table) (m : Key → Int) (st st' : CState) (op : COp) (o : COut)
    (h : cstep cc T m st op = some (.ok (st', o))) :
    st'.live.length + (match op with | .free _ => 1 | _ => 0) = st.live.length + (if o.handle.isSome then 1 else 0) ∨
    (∃ hh, op = .free hh) := by
  cases op <;> simp only [cstep] at h
  case free hh => exact Or.inr ⟨hh, rfl⟩
  case new => cases h; left; simp [CState.alloc]
  case parse s =>
    cases hps : parseFormula cc T s <;> simp only [hps] at h
    · cases h; left; simp [CState.alloc]
    · cases h; left; simp
    · cases h
  case copy hh =>
    cases hf : st.find hh <;> simp only [hf, Option.map_none, Option.map_some] at h
    · cases h
    · cases h; left; simp [CState.alloc]
  case get hh s =>
    cases hf : st.find hh <;> simp only [hf, Option.map_none, Option.map_some] at h
    · cases h
    · cases h; left; simp
  case set hh s n =>
    cases hf : st.find hh <;> simp only [hf, Option.map_none, Option.map_some] at h
    · cases h
    · cases hps : parseSpec T s <;> simp only [hps] at h
      · cases h; left; simp [CState.put]
      · cases h; left; simp
      · cases h
  case inc hh s n =>
    cases hf : st.find hh <;> simp only [hf, Option.map_none, Option.map_some] at h
    · cases h
    · cases hps : parseSpec T s <;> simp only [hps] at h
      · cases h; left; simp [CState.put]
      · cases h; left; simp
      · cases h
  case add a b =>
    split at h
    · cases h
    · split at h
      · cases h; left; simp [CState.put]
      · cases h
  case sub a b =>
    split at h
    · cases h
    · split at h
      · cases h; left; simp [CState.put]
      · cases h
  case scale hh n =>
    cases hf : st.find hh <;> simp only [hf, Option.map_none, Option.map_some] at h
    · cases h
    · cases h; left; simp [CState.put]
  case mass hh =>
    cases hf : st.find hh <;> simp only [hf, Option.map_none, Option.map_some] at h
    · cases h
    · cases h; left; simp

end Chem
