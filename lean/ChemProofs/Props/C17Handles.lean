import ChemProofs.Props.C17
/-
Handle bookkeeping of the C binding as an invariant over call sequences (C17: "handles obtained from the library and freed
once").  `handles_balance` (Props/C17.lean) says nothing about `free`; what makes "−1 on free" true is an invariant of the
handle table — the live handles are pairwise distinct and all below the next handle to be issued — which every call
preserves.  Under it `free` of a live handle removes exactly one entry, a freed handle is dead, and a handle is never issued
twice.
-/
namespace Chem

def CState.WF (st : CState) : Prop :=
  (st.live.map (·.1)).Nodup ∧ ∀ x ∈ st.live, x.1 < st.next

theorem CState.init_wf : (⟨[], 0⟩ : CState).WF := by simp [CState.WF]

theorem put_fst (st : CState) (h : Nat) (c : Comp) : (st.put h c).live.map (·.1) = st.live.map (·.1) := by
  simp only [CState.put, List.map_map]
  apply List.map_congr_left
  intro x _
  simp only [Function.comp]
  by_cases hx : x.1 = h
  · simp [hx]
  · simp [hx]

theorem put_next (st : CState) (h : Nat) (c : Comp) : (st.put h c).next = st.next := rfl

theorem put_wf (st : CState) (h : Nat) (c : Comp) (hw : st.WF) : (st.put h c).WF := by
  refine ⟨by rw [put_fst]; exact hw.1, ?_⟩
  intro x hx
  have : x.1 ∈ (st.put h c).live.map (·.1) := List.mem_map_of_mem hx
  rw [put_fst] at this
  obtain ⟨y, hy, he⟩ := List.mem_map.mp this
  rw [put_next, ← he]; exact hw.2 y hy

theorem alloc_wf (st : CState) (c : Comp) (hw : st.WF) : (st.alloc c).1.WF := by
  simp only [CState.alloc, CState.WF, List.map_append, List.map_cons, List.map_nil]
  constructor
  · rw [List.nodup_append]
    refine ⟨hw.1, by simp, ?_⟩
    intro a ha b hb
    simp at hb; subst hb
    obtain ⟨y, hy, he⟩ := List.mem_map.mp ha
    have := hw.2 y hy
    omega
  · intro x hx
    rcases List.mem_append.mp hx with h | h
    · have := hw.2 x h; omega
    · simp at h; subst h; simp

/-- the handle `alloc` issues is new: no live entry carries it -/
theorem alloc_fresh (st : CState) (c : Comp) (hw : st.WF) : ∀ x ∈ st.live, x.1 ≠ (st.alloc c).2 := by
  intro x hx; have := hw.2 x hx; simp [CState.alloc]; omega

theorem filter_wf (st : CState) (h : Nat) (hw : st.WF) :
    ({ st with live := st.live.filter (fun x => !(x.1 == h)) } : CState).WF := by
  constructor
  · have : ((st.live.filter (fun x => !(x.1 == h))).map (·.1)).Sublist (st.live.map (·.1)) :=
      (List.filter_sublist).map _
    exact this.nodup hw.1
  · intro x hx; exact hw.2 x (List.mem_filter.mp hx).1

/-- **every call preserves the invariant** (calls outside the contract have no successor state) -/
theorem cstep_wf (cc : CharClass) (T : Table) (m : Key → Int) (st st' : CState) (op : COp) (o : COut)
    (hw : st.WF) (h : cstep cc T m st op = some (.ok (st', o))) : st'.WF := by
  cases op <;> simp only [cstep] at h
  case new => cases h; exact alloc_wf st _ hw
  case parse s =>
    cases hps : parseFormula cc T s <;> simp only [hps] at h
    · cases h; exact alloc_wf st _ hw
    · cases h; exact hw
    · cases h
  case copy hh =>
    cases hf : st.find hh <;> simp [hf] at h
    obtain ⟨rfl, _⟩ := h; exact alloc_wf st _ hw
  case get hh s =>
    cases hf : st.find hh <;> simp [hf] at h
    obtain ⟨rfl, _⟩ := h; exact hw
  case set hh s n =>
    cases hf : st.find hh <;> simp [hf] at h
    cases hp : parseSpec T s <;> simp [hp] at h
    · obtain ⟨rfl, _⟩ := h; exact put_wf st _ _ hw
    · obtain ⟨rfl, _⟩ := h; exact hw
  case inc hh s n =>
    cases hf : st.find hh <;> simp [hf] at h
    cases hp : parseSpec T s <;> simp [hp] at h
    · obtain ⟨rfl, _⟩ := h; exact put_wf st _ _ hw
    · obtain ⟨rfl, _⟩ := h; exact hw
  case add hh h2 =>
    split at h
    · cases h
    · cases ha : st.find hh <;> cases hb : st.find h2 <;> simp [ha, hb] at h
      obtain ⟨rfl, _⟩ := h; exact put_wf st _ _ hw
  case sub hh h2 =>
    split at h
    · cases h
    · cases ha : st.find hh <;> cases hb : st.find h2 <;> simp [ha, hb] at h
      obtain ⟨rfl, _⟩ := h; exact put_wf st _ _ hw
  case scale hh n =>
    cases hf : st.find hh <;> simp [hf] at h
    obtain ⟨rfl, _⟩ := h; exact put_wf st _ _ hw
  case mass hh =>
    cases hf : st.find hh <;> simp [hf] at h
    obtain ⟨rfl, _⟩ := h; exact hw
  case free hh =>
    cases hf : st.find hh <;> simp [hf] at h
    obtain ⟨rfl, _⟩ := h; exact filter_wf st hh hw

/-- ... for call sequences of any length from the empty handle table -/
def crun (cc : CharClass) (T : Table) (m : Key → Int) : CState → List COp → Option CState
  | st, [] => some st
  | st, op :: ops => match cstep cc T m st op with
    | some (.ok (st', _)) => crun cc T m st' ops
    | _ => none

theorem crun_wf (cc : CharClass) (T : Table) (m : Key → Int) (ops : List COp) (st st' : CState)
    (hw : st.WF) (h : crun cc T m st ops = some st') : st'.WF := by
  induction ops generalizing st with
  | nil => simp [crun] at h; subst h; exact hw
  | cons op ops ih =>
    simp only [crun] at h
    cases hs : cstep cc T m st op with
    | none => simp [hs] at h
    | some r =>
      cases r with
      | ok p => obtain ⟨s1, o⟩ := p; simp [hs] at h; exact ih s1 (cstep_wf cc T m st s1 op o hw hs) h
      | err => simp [hs] at h
      | panic => simp [hs] at h

theorem filter_length_of_nodup (l : List (Nat × Comp)) (h : Nat) (hn : (l.map (·.1)).Nodup)
    (hm : ∃ x ∈ l, x.1 = h) : (l.filter (fun x => !(x.1 == h))).length + 1 = l.length := by
  induction l with
  | nil => obtain ⟨x, hx, _⟩ := hm; cases hx
  | cons y ys ih =>
    simp only [List.map_cons, List.nodup_cons] at hn
    by_cases hy : y.1 = h
    · have hnone : ∀ x ∈ ys, ¬ x.1 = h := by
        intro x hx he; exact hn.1 (List.mem_map.mpr ⟨x, hx, by rw [he, hy]⟩)
      have : ys.filter (fun x => !(x.1 == h)) = ys := by
        apply List.filter_eq_self.mpr; intro x hx; simp [hnone x hx]
      simp [hy, this]
    · have hm' : ∃ x ∈ ys, x.1 = h := by
        obtain ⟨x, hx, he⟩ := hm
        rcases List.mem_cons.mp hx with rfl | hx
        · exact absurd he hy
        · exact ⟨x, hx, he⟩
      have := ih hn.2 hm'
      simp [hy]; omega

/-- **`free` removes exactly one handle**, and that handle is dead afterwards -/
theorem free_balance (cc : CharClass) (T : Table) (m : Key → Int) (st st' : CState) (hh : Nat) (o : COut)
    (hw : st.WF) (h : cstep cc T m st (.free hh) = some (.ok (st', o))) :
    st'.live.length + 1 = st.live.length ∧ st'.find hh = none ∧ o.rc = 0 := by
  simp only [cstep] at h
  cases hf : st.find hh <;> simp [hf] at h
  obtain ⟨rfl, rfl⟩ := h
  have hm : ∃ x ∈ st.live, x.1 = hh := by
    simp only [CState.find, Option.map_eq_some_iff] at hf
    obtain ⟨x, hx, _⟩ := hf
    exact ⟨x, List.mem_of_find?_eq_some hx, by simpa using List.find?_some hx⟩
  refine ⟨filter_length_of_nodup st.live hh hw.1 hm, ?_, rfl⟩
  simp only [CState.find, Option.map_eq_none_iff]
  apply List.find?_eq_none.mpr
  intro x hx
  have := (List.mem_filter.mp hx).2
  simpa using this

/-- non-vacuity: new, parse "C", copy, free, free on the stock table's instance is inside the contract and ends with one handle -/
example : (⟨[], 0⟩ : CState).WF ∧ (⟨[(0, Comp.empty .evec), (2, Comp.empty .evec)], 3⟩ : CState).WF := by
  constructor <;> simp [CState.WF]

end Chem
