import ChemProofs.Model.Comp
/-
The abstract specification of a composition: a finite map from keys to counts, written as a
function `Key → Option Int` (`none` = key absent).  Every operation is defined pointwise, with no
reference to lists, insertion order or caches.  `Props/C04.lean` proves that both stores refine it.
-/
namespace Chem

abbrev FMap := Key → Option Int

namespace FMap

def empty : FMap := fun _ => none
def get (f : FMap) (k : Key) : Int := (f k).getD 0
def set (f : FMap) (k : Key) (v : Int) : FMap := fun k' => if k' = k then some v else f k'
def inc (f : FMap) (k : Key) (v : Int) : FMap := f.set k (f.get k + v)
def scale (f : FMap) (g : Int → Int) : FMap := fun k => (f k).map g
/-- `f ± g`: every key of `g` becomes present, with the pointwise sum -/
def add (f g : FMap) (sign : Int) : FMap :=
  fun k => match g k with
    | none => f k
    | some v => some (f.get k + sign * v)
/-- the map holding, for every key listed, the sum of the counts listed for it -/
def ofPairs (ps : Ents) : FMap :=
  fun k => if ps.any (fun e => e.1 == k) then
      some (((ps.filter (fun e => e.1 == k)).map (·.2)).sum) else none
/-- same keys, same counts -/
def Same (f g : FMap) : Prop := ∀ k, f k = g k

end FMap
end Chem
