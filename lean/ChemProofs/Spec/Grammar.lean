import ChemProofs.Model.ElemSpec
/-
The documented formula grammar, independently of the parser's state machine:

    formula := term+
    term    := Symbol ( '[' digits ']' )? digits?   |   '(' formula ')' digits?

* `Terms` / `render` / `denote`: abstract syntax, its text and its meaning (used by the theorems).
* `specFormula`: a table-driven recursive-descent recogniser used as the oracle for arbitrary
  strings: `accept pairs | reject | unspecified` (the corners `[]` and `[0]` are unspecified).
-/
namespace Chem
namespace Spec

mutual
  inductive Term where
    | elem (sym : Sym) (iso : Option Nat) (cnt : Option Nat)
    | group (body : Terms) (cnt : Option Nat)
  inductive Terms where
    | nil
    | cons (t : Term) (ts : Terms)
end

def renderCount : Option Nat → List Nat
  | none => []
  | some n => natDigits n

mutual
  def Term.render : Term → List Nat
    | .elem sym iso cnt =>
      sym ++ (match iso with | none => [] | some i => [91] ++ natDigits i ++ [93]) ++ renderCount cnt
    | .group body cnt => [40] ++ body.render ++ [41] ++ renderCount cnt
  def Terms.render : Terms → List Nat
    | .nil => []
    | .cons t ts => t.render ++ ts.render
end

mutual
  /-- contribution of a term to key `k`, multiplied by the counts of the enclosing groups -/
  def Term.denote : Term → Key → Int
    | .elem sym iso cnt, k => if k = (sym, iso.getD 0) then ((cnt.getD 1 : Nat) : Int) else 0
    | .group body cnt, k => ((cnt.getD 1 : Nat) : Int) * body.denote k
  def Terms.denote : Terms → Key → Int
    | .nil, _ => 0
    | .cons t ts, k => t.denote k + ts.denote k
end

mutual
  def Term.mentioned : Term → List Key
    | .elem sym iso _ => [(sym, iso.getD 0)]
    | .group body _ => body.mentioned
  def Terms.mentioned : Terms → List Key
    | .nil => []
    | .cons t ts => t.mentioned ++ ts.mentioned
end

/-! ### recogniser / oracle -/

inductive SRes (α : Type) where
  | ok : α → SRes α
  | reject : SRes α
  | unspec : SRes α
deriving Repr

def SRes.bind {α β} (r : SRes α) (f : α → SRes β) : SRes β :=
  match r with
  | .ok a => f a
  | .reject => .reject
  | .unspec => .unspec

def takeDigits : List Nat → List Nat × List Nat
  | [] => ([], [])
  | c :: rest => if isAsciiDigit c then let (d, r) := takeDigits rest; (c :: d, r) else ([], c :: rest)

def digitsNat (ds : List Nat) : Nat := ds.foldl (fun n d => 10 * n + (d - 48)) 0

/-- may a symbol token end before this character? -/
def follower (cc : CharClass) : Option Nat → Bool
  | none => true
  | some c => isAsciiUpper c || cc.numeric c || c == 91 || c == 40 || c == 41

def isPrefix : List Nat → List Nat → Bool
  | [], _ => true
  | _ :: _, [] => false
  | a :: as, b :: bs => a == b && isPrefix as bs

/-- the longest table symbol that is a prefix of the input and is followed by a legal follower -/
def symbolToken (cc : CharClass) (T : Table) (s : List Nat) : Option (Elem × List Nat) :=
  let cands := T.filter (fun e => !e.sym.isEmpty && (e.sym.head?.map isAsciiUpper).getD false &&
    isPrefix e.sym s && follower cc (s.drop e.sym.length).head?)
  match cands.foldl (fun (best : Option Elem) e => match best with
      | none => some e
      | some b => if b.sym.length < e.sym.length then some e else some b) none with
  | some e => some (e, s.drop e.sym.length)
  | none => none

/-- optional count: a maximal ASCII digit run; a following non-ASCII numeric makes it malformed -/
def optCount (cc : CharClass) (s : List Nat) : SRes (Option Nat × List Nat) :=
  let (ds, rest) := takeDigits s
  match rest.head? with
  | some c => if cc.numeric c then .reject else
      if ds.isEmpty then .ok (none, rest) else
      if digitsNat ds ≤ 2147483647 then .ok (some (digitsNat ds), rest) else .reject
  | none =>
      if ds.isEmpty then .ok (none, rest) else
      if digitsNat ds ≤ 2147483647 then .ok (some (digitsNat ds), rest) else .reject

abbrev Pairs := List (Key × Int)

/-- the term loop of one nesting level; `sub` parses a group body up to its closing ')' -/
def specGo (cc : CharClass) (T : Table) (sub : List Nat → SRes (Pairs × List Nat × Bool)) (inGroup : Bool) :
    Nat → List Nat → Pairs → Bool → Bool → SRes (Pairs × List Nat × Bool)
  | 0, _, _, _, _ => .reject
  | n + 1, s, acc, any, unspec =>
    match s with
    | [] => if any && !inGroup then .ok (acc, [], unspec) else .reject
    | 41 :: rest => if any && inGroup then .ok (acc, rest, unspec) else .reject
    | 40 :: rest =>
      (sub rest).bind fun (body, rest, u) =>
        (optCount cc rest).bind fun (cnt, rest) =>
          let k : Int := ((cnt.getD 1 : Nat) : Int)
          specGo cc T sub inGroup n rest (acc ++ body.map (fun e => (e.1, k * e.2))) true (unspec || u)
    | _ =>
      match symbolToken cc T s with
      | none => .reject
      | some (e, rest) =>
        let isoR : SRes (Option Nat × List Nat × Bool) :=
          match rest with
          | 91 :: r1 =>
            let (ds, r2) := takeDigits r1
            (match r2 with
              | 93 :: r3 =>
                if ds.isEmpty then .ok (none, r3, true)                 -- "[]": unspecified
                else if digitsNat ds == 0 then .ok (none, r3, true)      -- "[0]": unspecified
                else if digitsNat ds ≤ 65535 && (e.iso? (digitsNat ds)).isSome then .ok (some (digitsNat ds), r3, false)
                else .reject
              | _ => .reject)
          | _ => .ok (none, rest, false)
        isoR.bind fun (iso, rest, u) =>
          (optCount cc rest).bind fun (cnt, rest) =>
            specGo cc T sub inGroup n rest (acc ++ [((e.sym, iso.getD 0), ((cnt.getD 1 : Nat) : Int))]) true (unspec || u)

/-- `formula` at one nesting level: terms until end of input (top level) or the matching ')' -/
def specTerms (cc : CharClass) (T : Table) : Nat → Bool → List Nat → SRes (Pairs × List Nat × Bool)
  | 0, _, _ => .reject
  | fuel + 1, inGroup, s => specGo cc T (specTerms cc T fuel true) inGroup (s.length + 1) s [] false false

inductive FVerdict where
  | accept (pairs : Pairs)
  | reject
  | unspecified
deriving Repr

def specFormula (cc : CharClass) (T : Table) (s : List Nat) : FVerdict :=
  match specTerms cc T (s.length + 1) false s with
  | .ok (pairs, _, u) => if u then .unspecified else .accept pairs
  | .reject => .reject
  | .unspec => .unspecified

end Spec
end Chem
