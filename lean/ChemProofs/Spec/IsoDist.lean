import ChemProofs.Model.Table
/-
The exact aggregated isotope distribution of a composition, defined with polynomial arithmetic and
no reference to Newton identities: for an element `e`
    Pₑ(x) = Σ_iso abundance · x^(shift − minShift),   Mₑ(x) = Σ_iso mass · abundance · x^(shift − minShift)
and for a composition {e ↦ nₑ}
    aggProb j = [x^j] ∏ₑ Pₑ^nₑ
    aggMass j = [x^j] Σₑ nₑ · Mₑ · Pₑ^(nₑ−1) · ∏_{e'≠e} P_{e'}^{n_{e'}}
(the probability, and the probability-weighted total mass, of all isotopologues with `j` neutrons
in excess of the lightest one).  Polynomials are coefficient lists, truncated at a degree bound.
-/
namespace Chem
namespace Spec

abbrev Poly := List Rat

def polyAdd : Poly → Poly → Poly
  | [], q => q
  | p, [] => p
  | a :: p, b :: q => (a + b) :: polyAdd p q

def polyScale (c : Rat) (p : Poly) : Poly := p.map (c * ·)

/-- product truncated to coefficients `0..=deg` -/
def polyMul (deg : Nat) : Poly → Poly → Poly
  | [], _ => []
  | a :: p, q => (polyAdd (polyScale a q) (0 :: polyMul deg p q)).take (deg + 1)

def polyPow (deg : Nat) (p : Poly) : Nat → Poly
  | 0 => [1]
  | n + 1 => polyMul deg p (polyPow deg p n)

/-- coefficient list of an element: index = shift − minShift -/
def elemPoly (e : Elem) (one : Rat) (withMass : Bool) : Poly :=
  let lo := (e.isos.map (·.shift)).foldl min 0
  let hi := (e.isos.map (·.shift)).foldl max 0
  (List.range ((hi - lo).toNat + 1)).map fun (k : Nat) =>
    match e.isos.find? (fun i => i.shift == lo + Int.ofNat k) with
    | some i => (if withMass then (i.mass : Rat) / one else 1) * ((i.abund : Rat) / one)
    | none => 0

def elemSpan (e : Elem) : Nat :=
  ((e.isos.map (·.shift)).foldl max 0 - (e.isos.map (·.shift)).foldl min 0).toNat

/-- the true number of reachable neutron-excess levels: Σ (maxShift − minShift)·n -/
def trueVariants (c : List (Elem × Nat)) : Nat := (c.map fun x => elemSpan x.1 * x.2).sum

def aggProb (c : List (Elem × Nat)) (one : Rat) (deg : Nat) : Poly :=
  c.foldl (fun acc x => polyMul deg acc (polyPow deg (elemPoly x.1 one false) x.2)) [1]

def aggMass (c : List (Elem × Nat)) (one : Rat) (deg : Nat) : Poly :=
  (List.range c.length).foldl (fun acc idx =>
    match c[idx]? with
    | none => acc
    | some x =>
      if x.2 == 0 then acc else
      let others := (c.zipIdx.filter (fun y => y.2 != idx)).map (·.1)
      let rest := others.foldl (fun a y => polyMul deg a (polyPow deg (elemPoly y.1 one false) y.2)) [1]
      let own := polyMul deg (elemPoly x.1 one true) (polyPow deg (elemPoly x.1 one false) (x.2 - 1))
      polyAdd acc (polyScale (x.2 : Rat) (polyMul deg own rest))) []

end Spec
end Chem
