import ChemProofs.Model.Peaks
/-
Specifications of the pattern operations, written independently of the loops in the code:
what C13 / C14 *say* the operations do.
-/
namespace Chem
namespace Spec

/-- shortest non-empty prefix whose cumulative intensity reaches `t`; all peaks if none does -/
def prefixReaching (t : Rat) (l : List Peak) : List Peak :=
  match (List.range l.length).find? (fun k => t ≤ total (l.take (k + 1))) with
  | some k => l.take (k + 1)
  | none => l

def truncateAfter (p : Pattern) (t : Rat) : Option Pattern :=
  Pattern.normalize { p with peaks := prefixReaching t p.peaks }

/-- exactly the peaks with intensity at least `t`, in order, renormalised -/
def ignoreBelow (p : Pattern) (t : Rat) : Option Pattern :=
  Pattern.normalize { p with peaks := p.peaks.filter (fun q => t ≤ q.int) }

/-- the step-wise pipeline the fused operation must agree with (peaks only) -/
def stepwise (p : Pattern) (t1 t2 o : Rat) : Option (List Peak) :=
  match truncateAfter p t1 with
  | none => none
  | some a => match ignoreBelow a t2 with
    | none => none
    | some b => some (b.shift o).peaks

def dropLast (p : Pattern) : Option Pattern := Pattern.normalize { p with peaks := p.peaks.dropLast }

def slice (p : Pattern) (a b : Nat) : Option Pattern :=
  Pattern.normalize { p with peaks := (p.peaks.take b).drop a }

/-- the normalised pattern, then each successively shorter prefix renormalised, for as long as
    the prefix covers more than `t` of the normalised signal and has at least two peaks -/
def incrFrom (l : List Peak) (origin t : Rat) : Nat → List (Option Pattern)
  | 0 => []
  | k + 1 =>
    if 2 ≤ k + 1 ∧ t < total (l.take (k + 1)) then
      Pattern.normalize { peaks := l.take (k + 1), origin := origin } :: incrFrom l origin t k
    else []

def incremental (p : Pattern) (t : Rat) : Option (List (Option Pattern)) :=
  match p.normalize with
  | none => none
  | some q => some (incrFrom q.peaks q.origin t q.peaks.length)

/-- same number of peaks and every pair of corresponding peaks within the tolerance -/
def patternEq (tol : Rat) (a b : Pattern) : Bool :=
  a.peaks.length == b.peaks.length &&
  (List.range a.peaks.length).all (fun i =>
    match a.peaks[i]?, b.peaks[i]? with
    | some x, some y => decide (ratAbs (x.mz - y.mz) ≤ tol) && decide (ratAbs (x.int - y.int) ≤ tol)
    | _, _ => false)

end Spec
end Chem
