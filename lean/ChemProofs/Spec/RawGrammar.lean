import ChemProofs.Model.ElemSpec
/-
The formula grammar at the level of *text*, for the converse direction of C05 ("a composition is
returned only when the string is a well-formed formula"):

    formula := term+
    term    := Symbol ( '[' digits ']' )? digits?   |   '(' formula ')' digits?

`Spec/Grammar.lean` carries numbers as `Nat` (one text per number: `natDigits`).  Here a number is the
digit string that stands in the text, so that *every* spelling the parser accepts (leading zeros,
`H02`) has a syntax tree whose rendering is the input itself; well-formedness then says what a digit
string must satisfy.  The two corners the property leaves unspecified are admitted explicitly:
`[]` (an empty bracket, read as "no isotope") and `[0]` / `[000]` (isotope number 0, read as "no
isotope").
-/
namespace Chem
namespace Spec

mutual
  inductive RTerm where
    | elem (sym : Sym) (iso : Option (List Nat)) (cnt : Option (List Nat))
    | group (body : RTerms) (cnt : Option (List Nat))
  inductive RTerms where
    | nil
    | cons (t : RTerm) (ts : RTerms)
end

def rOpt : Option (List Nat) → List Nat
  | none => []
  | some ds => ds

def rIso : Option (List Nat) → List Nat
  | none => []
  | some ds => [91] ++ ds ++ [93]

mutual
  def RTerm.render : RTerm → List Nat
    | .elem sym iso cnt => sym ++ rIso iso ++ rOpt cnt
    | .group body cnt => [40] ++ body.render ++ [41] ++ rOpt cnt
  def RTerms.render : RTerms → List Nat
    | .nil => []
    | .cons t ts => t.render ++ ts.render
end

/-- the value of an optional count (default 1) -/
def cntVal : Option (List Nat) → Int
  | none => 1
  | some ds => (parseI32 ds).getD 0

/-- the value of an optional isotope bracket (none, `[]` and `[0]` all mean "no fixed isotope") -/
def isoVal : Option (List Nat) → Nat
  | none => 0
  | some ds => (parseU16 ds).getD 0

/-- an optional count is a non-empty run of ASCII digits whose value fits `i32` -/
def cntOK : Option (List Nat) → Bool
  | none => true
  | some ds => !ds.isEmpty && ds.all isAsciiDigit && (parseI32 ds).isSome

/-- an optional isotope bracket holds ASCII digits only; its value fits `u16` and is an isotope the
    element has — or it is one of the unspecified corners `[]`, `[0]` -/
def isoOKr (e : Elem) : Option (List Nat) → Bool
  | none => true
  | some ds => ds.isEmpty ||
      (ds.all isAsciiDigit && (match parseU16 ds with
        | some v => v == 0 || (e.iso? v).isSome
        | none => false))

def upperHead : Sym → Bool
  | [] => false
  | c :: _ => isAsciiUpper c

def RTerms.nonEmpty : RTerms → Bool
  | .nil => false
  | .cons _ _ => true

mutual
  /-- well-formedness of a term over the table `T` -/
  def RTerm.wf (T : Table) : RTerm → Bool
    | .elem sym iso cnt =>
      (match T.find? sym with
        | some e => upperHead sym && isoOKr e iso
        | none => false) && cntOK cnt
    | .group body cnt => body.nonEmpty && body.wf T && cntOK cnt
  def RTerms.wf (T : Table) : RTerms → Bool
    | .nil => true
    | .cons t ts => t.wf T && ts.wf T
end

mutual
  /-- contribution of a term to key `k`, multiplied through the enclosing groups -/
  def RTerm.denote (T : Table) : RTerm → Key → Int
    | .elem sym iso cnt, k =>
      (match T.find? sym with
        | some e => if k = (e.sym, isoVal iso) then cntVal cnt else 0
        | none => 0)
    | .group body cnt, k => cntVal cnt * body.denote T k
  def RTerms.denote (T : Table) : RTerms → Key → Int
    | .nil, _ => 0
    | .cons t ts, k => t.denote T k + ts.denote T k
end

end Spec
end Chem
