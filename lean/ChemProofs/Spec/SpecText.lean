import ChemProofs.Model.ElemSpec
/-
What C16 says an element-specification string is, independently of the parser's control flow:
a table symbol, optionally followed by one bracketed isotope number that the element has.
Sign and leading zeros inside the bracket are left unspecified.
-/
namespace Chem
namespace Spec

inductive Verdict where
  | accept (k : Key)
  | reject
  | unspecified
deriving DecidableEq, Repr

/-- canonical decimal numeral: non-empty ASCII digits, no leading zero unless it is "0" -/
def canonicalNumeral (ds : List Nat) : Bool :=
  !ds.isEmpty && ds.all isAsciiDigit && (ds.length == 1 || ds.head? != some 48)

/-- all ways of writing `s = sym ++ "[" ++ body ++ "]"` with `sym` a table symbol -/
def bracketSplits (T : Table) (s : List Nat) : List (Elem × List Nat) :=
  T.filterMap (fun e =>
    let n := e.sym.length
    if s.take n == e.sym && (s.drop n).head? == some 91 && s.getLast? == some 93 && n + 2 ≤ s.length then
      some (e, ((s.drop (n + 1)).dropLast))
    else none)

def specVerdict (T : Table) (s : List Nat) : Verdict :=
  match T.find? s with
  | some e => .accept (e.sym, 0)
  | none =>
    match bracketSplits T s with
    | [] => .reject
    | (e, body) :: _ =>
      if canonicalNumeral body then
        match digitsVal body with
        | some v => if v ≤ 65535 && (e.iso? v).isSome then .accept (e.sym, v) else .reject
        | none => .reject
      else
        -- "+13", "013": a numeral of one of the element's isotopes written non-canonically
        match parseU16 body with
        | some v => if (e.iso? v).isSome then .unspecified else .reject
        | none => .reject

def allKeys (T : Table) : List Key :=
  T.flatMap (fun e => (e.sym, 0) :: (e.isos.filter (fun i => i.key != 0)).map (fun i => (e.sym, i.key)))

end Spec
end Chem
