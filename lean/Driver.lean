import ChemProofs.Drv.C12
import ChemProofs.Drv.Comp
import ChemProofs.Drv.Peaks
import ChemProofs.Drv.Spec
import ChemProofs.Drv.Formula
import ChemProofs.Drv.Conv
import ChemProofs.Drv.Brain
import ChemProofs.Drv.CBind
/- Model driver: `driver <mode>` reads op lines on stdin, prints one observation line per op. -/
open Chem.Drv

partial def loop (h : IO.FS.Stream) (f : String → String) : IO Unit := do
  let line ← h.getLine
  if line.isEmpty then return ()
  let line := if line.endsWith "\n" then (line.dropEnd 1).toString else line
  IO.println (f line)
  loop h f

def main (args : List String) : IO UInt32 := do
  match args with
  | ["c12"] => do
    for l in c12All do IO.println l
    return 0
  | ["comp"] => do
    loop (← IO.getStdin) runCompCase
    return 0
  | ["spec"] => do
    loop (← IO.getStdin) runSpecCase
    return 0
  | ["formula"] => do
    loop (← IO.getStdin) runFormulaCase
    return 0
  | ["conv"] => do
    loop (← IO.getStdin) (fun l => runConvCase l)
    return 0
  | ["convm"] => do
    loop (← IO.getStdin) (fun l => runConvCase l true)
    return 0
  | ["brain"] => do
    loop (← IO.getStdin) runBrainCase
    return 0
  | ["brainhist"] => do
    loop (← IO.getStdin) runBrainHist
    return 0
  | ["cbind"] => do
    loop (← IO.getStdin) runCBindCase
    return 0
  | ["peaks"] => do
    loop (← IO.getStdin) runPeaksCase
    return 0
  | ["poisson"] => do
    loop (← IO.getStdin) runPoissonCase
    return 0
  | _ => do
    IO.eprintln s!"driver: unknown mode {args}"
    return 2
