"""BRAIN coarse generator (C03, C08, C09): generators, interpreters, judgement against the exact oracle."""
import itertools
import json
import random
from fractions import Fraction

from .common import Run, Broken, close, WORK
from .peaks import fr, parse_pattern

PROTON = Fraction(1007276, 10 ** 6)
CUT2 = Fraction(2, 10 ** 10)
MARGIN = Fraction(1, 10 ** 6)


def table():
    rows = [json.loads(l) for l in (WORK / "dump.jsonl").read_text().splitlines() if l.strip()]
    out = {}
    for x in rows:
        if x["table"] != "global":
            continue
        isos = sorted(x["isotopes"], key=lambda i: i["key"])
        shifts = [i["shift"] for i in isos]
        gaps = any(b - a > 1 for a, b in zip(shifts, shifts[1:]))
        out[x["symbol"]] = dict(isos=isos, lighter=min(shifts) < 0, gaps=gaps, span=max(shifts) - min(shifts),
                                lo=Fraction(isos[0]["mass"]), hi=Fraction(isos[-1]["mass"]), mono=Fraction(x["most_abundant_mass"]))
    return out


def pairs_of(comp):
    return ",".join(f"{s}:0={n}" for s, n in comp) or "-"


def gen_compositions(r: Run, T):
    rng = random.Random(r.seed)
    thorough = r.tier == "thorough"
    domain = [s for s, v in T.items() if not v["lighter"]]                 # lightest isotope is the most abundant one
    good = [s for s in domain if not T[s]["gaps"]]                          # and the ladder has no gap
    multi_good = [s for s in good if len(T[s]["isos"]) > 1]
    comps = []
    named = [[("C", 6), ("H", 12), ("O", 6)], [("H", 2), ("O", 1)], [("C", 34), ("H", 53), ("O", 15), ("N", 7)],
             [("C", 2), ("H", 6), ("S", 1)], [("Cl", 2)], [("K", 300)], [("Br", 4)], [("S", 8)], [("Ca", 1), ("Cl", 2)],
             [("Si", 2), ("Mg", 1), ("O", 4)], [("Fe", 2), ("O", 3)],
             [("C", 100), ("H", 200), ("N", 30), ("O", 40), ("S", 2)], [("K", 3)], [("Ne", 5)], [("Lu", 2), ("O", 3)]]
    if thorough:
        # the exact oracle raises polynomials to these powers by repeated multiplication: minutes per case
        named += [[("C", 600), ("H", 1200), ("O", 600)], [("C", 254), ("H", 377), ("N", 65), ("O", 75)]]
    comps += named
    counts = [0, 1, 2, 3, 5, 17, 64, 100]
    k = 0
    for els in itertools.combinations(multi_good[:8] + ["F", "Na", "P"], 2):
        for cs in itertools.product(counts[1:6], repeat=2):
            k += 1
            if thorough or k % 9 == 0:
                comps.append(list(zip(els, cs)))
    for _ in range(300 if thorough else 40):
        n = rng.randint(1, 5)
        els = rng.sample(good if rng.random() < 0.7 else domain, n)
        tot = rng.choice([10, 50, 200] if not thorough else [10, 50, 200, 600, 2000])
        cs = [max(0, int(rng.random() * tot / n)) for _ in els]
        if sum(cs) == 0:
            cs[0] = 1
        order = list(zip(els, cs))
        rng.shuffle(order)
        comps.append(order)
    return comps, domain, good


def requests(rng, thorough):
    base = ["guess", "n:2", "n:3", "n:5", "n:17", "f:1/2", "f:15/16", "f:8191/8192"]
    if thorough:
        base += ["n:64", "n:150", "n:300", "f:1023/1024"]
    return base


def parse_spec(spec_s):
    out = {}
    for row in spec_s.split(","):
        j, mz, p = row.split(":")
        out[int(j)] = (None if mz == "-" else Fraction(mz), Fraction(p))
    return out


def match_variants(peaks, spec, mz_tol):
    """assign each returned peak to the variant with the nearest exact centre m/z; returns list of j (or None)"""
    js = []
    for mz, _ in peaks:
        best = None
        for j, (smz, p) in spec.items():
            if smz is None:
                continue
            d = abs(mz - smz)
            if best is None or d < best[0]:
                best = (d, j)
        js.append(best[1] if best is not None and best[0] <= mz_tol else None)
    return js


def py_agg_prob(comp, T, deg):
    """exact probabilities of the first deg+1 aggregated variants by truncated polynomial powers (binary
    exponentiation) — an oracle that stays cheap for compositions of thousands of atoms as long as deg is small.
    Only for elements whose ladder is gap-free and starts at the most abundant isotope (C03's domain)."""
    def mul(a, b):
        out = [Fraction(0)] * min(deg + 1, len(a) + len(b) - 1)
        for i, x in enumerate(a):
            if x == 0:
                continue
            for j, y in enumerate(b):
                if i + j > deg:
                    break
                out[i + j] += x * y
        return out

    def power(pl, n):
        res = [Fraction(1)]
        base = pl[: deg + 1]
        while n:
            if n & 1:
                res = mul(res, base)
            base = mul(base, base)
            n >>= 1
        return res
    acc = [Fraction(1)]
    for s, n in comp:
        isos = T[s]["isos"]
        pl = [Fraction(0)] * (max(i["shift"] for i in isos) + 1)
        for i in isos:
            pl[i["shift"]] = Fraction(i["abundance"])
        # only ratios of coefficients are used: with the constant term scaled to 1 the numbers stay small (a0^n has
        # tens of thousands of digits for a polymer)
        if pl[0] != 0:
            pl = [x / pl[0] for x in pl]
        acc = mul(acc, power(pl, n))
    return acc + [Fraction(0)] * (deg + 1 - len(acc))


def py_agg_mass(comp, T, deg):
    """exact mean masses of the first deg+1 aggregated variants: with P_e(x) = sum a_i x^shift_i and M_e(x) = sum a_i m_i x^shift_i,
    the probability series is prod P_e^n_e and the mass-weighted series is sum_e n_e P_e^(n_e - 1) M_e prod_{e' != e} P_e'^n_e';
    the centre of variant j is the quotient of their j-th coefficients.  Truncated at deg, binary powers."""
    def mul(a, b):
        out = [Fraction(0)] * min(deg + 1, len(a) + len(b) - 1)
        for i, x in enumerate(a):
            if x == 0:
                continue
            for j, y in enumerate(b):
                if i + j > deg:
                    break
                out[i + j] += x * y
        return out

    def power(pl, n):
        res = [Fraction(1)]
        base = pl[: deg + 1]
        while n:
            if n & 1:
                res = mul(res, base)
            base = mul(base, base)
            n >>= 1
        return res

    def polys(s):
        isos = T[s]["isos"]
        width = max(i["shift"] for i in isos) + 1
        pl, ml = [Fraction(0)] * width, [Fraction(0)] * width
        for i in isos:
            pl[i["shift"]] = Fraction(i["abundance"])
            ml[i["shift"]] = Fraction(i["abundance"]) * Fraction(i["mass"])
        if pl[0] != 0:
            a0 = pl[0]           # the common factor a0^n cancels in massw[j] / prob[j]
            pl, ml = [x / a0 for x in pl], [x / a0 for x in ml]
        return pl, ml
    parts = [(n, *polys(s)) for s, n in comp if n > 0]
    full = [power(pl, n) for n, pl, _ in parts]
    prob = [Fraction(1)]
    for f in full:
        prob = mul(prob, f)
    massw = [Fraction(0)] * (deg + 1)
    for k, (n, pl, ml) in enumerate(parts):
        term = mul(power(pl, n - 1), ml)
        term = [n * x for x in term]
        for k2, f in enumerate(full):
            if k2 != k:
                term = mul(term, f)
        for j, x in enumerate(term[: deg + 1]):
            massw[j] += x
    prob = prob + [Fraction(0)] * (deg + 1 - len(prob))
    return [(massw[j] / prob[j]) if prob[j] else None for j in range(deg + 1)]


def f32_neighbours(x):
    """the f32 values just below and just above the real number x (as exact Fractions)"""
    import struct
    f = struct.unpack("<f", struct.pack("<f", float(x)))[0]
    bits = struct.unpack("<I", struct.pack("<f", f))[0]
    out = []
    for b in (bits - 1, bits, bits + 1):
        v = struct.unpack("<f", struct.pack("<I", b))[0]
        out.append(Fraction(v))
    return sorted(set(out))


def boundary_fractions(mass, nmax=8):
    """signal fractions that sit, at f32 granularity, on either side of each point where the Poisson estimate of the
    composition's mass steps from n to n+1 peaks: t_n = 1 - (lambda^n/n!) / sum_{k<=n} lambda^k/k!"""
    lam = Fraction(mass) / 1800
    term, acc = Fraction(1), Fraction(1)
    out = []
    for n in range(1, nmax + 1):
        term = term * lam / n
        acc += term
        t = 1 - term / acc
        out += [v for v in f32_neighbours(t) if 0 < v < 1]
    return sorted(set(out))


def corr_lists(peaks, mpeaks, z):
    """impl vs model peak lists.  Variants are about 1/|z| apart, so peaks are aligned by m/z; an aligned pair must
    agree (m/z to 1e-9 relative when it carries >= 1e-4 of the signal, to 1e-13 / share below that, at most 1e-6 — the
    centre of a variant with a small share is a quotient of two numbers that small —, intensity to 1e-7 relative + 1e-13);
    a peak present on one side only is tolerated only below 2e-10: the cut sits at 1e-10 and the property asks for
    completeness from 2e-10 on.  Returns None or a description of the first disagreement."""
    gap = Fraction(1, 5 * max(1, abs(z)))
    cutoff = Fraction(2, 10 ** 10) * (1 + Fraction(1, 10 ** 6)) + Fraction(1, 10 ** 13)
    i = j = 0
    while i < len(peaks) or j < len(mpeaks):
        a = peaks[i] if i < len(peaks) else None
        b = mpeaks[j] if j < len(mpeaks) else None
        if a is not None and b is not None and abs(a[0] - b[0]) < gap:
            # (the centre of a variant is a quotient whose numerator is a sum with cancellation: its rounding error is
            # relative to the summands, i.e. it grows like u / share — 1e-9 down to a share of 1e-4, 1e-13 / share below,
            # never looser than 1e-6)
            share = float(max(a[1], b[1]))
            if not close(a[0], b[0], rel=min(1e-6, max(1e-9, 1e-13 / max(share, 1e-300)))):
                return f"m/z {float(a[0]):.9f} vs model {float(b[0]):.9f} (intensity {float(b[1]):.3e})"
            if not close(a[1], b[1], rel=1e-7, abs_=1e-13):
                return f"intensity {float(a[1]):.12e} vs model {float(b[1]):.12e} at m/z {float(b[0]):.6f}"
            i += 1
            j += 1
        elif b is None or (a is not None and a[0] < b[0]):
            if a[1] >= cutoff:
                return f"impl has a peak at m/z {float(a[0]):.6f} (intensity {float(a[1]):.3e}) the model does not return"
            i += 1
        else:
            if b[1] >= cutoff:
                return f"the model returns a peak at m/z {float(b[0]):.6f} (intensity {float(b[1]):.3e}) the implementation does not"
            j += 1
    return None


def judge(case, il, dl, T):
    """returns list of (property, clause, detail)"""
    comp, req, z, carrier, form = case
    parts = dl.split("\t")
    if len(parts) != 4:
        return [("BROKEN", "driver", dl[:100])]
    model_s, info, spec_s, margin_s = parts
    issues = []
    # the default and the signal-fraction requests go through poisson_approximate_n_peaks_of, whose search returns
    # early when (mass/1800)^i overflows a double (i > 170, or beyond ~1e300): C15 states its estimate only where
    # that power is representable, and the exact model has no overflow — such cases are outside what is modelled
    if req.split(":")[0] in ("guess", "none", "f") and info != "unspecified":
        import math
        steps = max(int(info.split(" ")[3]), int(info.split(" ")[2]) + 1)
        lam = float(sum(T[s]["mono"] * n for s, n in comp)) / 1800.0
        if steps > 170 or steps * math.log10(max(lam, 1.0)) > 300:
            return [("SKIP", "unrepresentable", "")]
    ip = parse_pattern(il)
    if isinstance(ip, str):
        return [("C09", "total", f"isotopic_variants returned {il[:40]}")]
    peaks = ip[1]
    mp = parse_pattern(model_s)
    margin = None if margin_s == "inf" else Fraction(margin_s)
    boundary = margin is not None and margin < MARGIN
    # correspondence impl vs model (the model has the recorded defect D5 too)
    if isinstance(mp, str):
        issues.append(("CORR", "corr", f"model says {model_s[:40]}, impl returned {len(peaks)} peaks"))
    else:
        why = corr_lists(peaks, mp[1], z)
        if why is not None:
            issues.append(("CORR", "corr", f"impl {len(peaks)} peaks vs model {len(mp[1])}: {why}"))
    if info == "unspecified":
        return issues
    tv, mv, order, g = (int(x) for x in info.split(" "))
    spec = parse_spec(spec_s)
    absz = abs(z) if z else 1
    mz_tol = Fraction(1, 10 ** 6)
    # ---- C09 shape ----
    if not peaks:
        issues.append(("C09", "nonempty", "empty pattern for a non-empty composition"))
        return issues
    if any(b[0] <= a[0] for a, b in zip(peaks, peaks[1:])):
        issues.append(("C09", "mz-increasing", "m/z values are not strictly increasing"))
    lo = sum(T[s]["lo"] * n for s, n in comp)
    hi = sum(T[s]["hi"] * n for s, n in comp)
    conv = (lambda m: m) if z == 0 else (lambda m: (m + z * carrier) / abs(z))
    lo_c, hi_c = sorted([conv(lo), conv(hi)])
    eps = Fraction(1, 10 ** 6)
    if any(p[0] < lo_c - eps or p[0] > hi_c + eps for p in peaks):
        issues.append(("C09", "mz-range", "an m/z lies outside [lightest, heaviest] isotopologue"))
    if any(p[1] < 0 for p in peaks):
        issues.append(("C09", "intensity", "negative intensity"))
    S = sum(p[1] for p in peaks)
    if S > 1 + Fraction(1, 10 ** 9):
        issues.append(("C09", "intensity", f"intensities sum to {float(S)} > 1"))
    # ---- match returned peaks to exact variants ----
    js = match_variants(peaks, spec, mz_tol)
    sig = [i for i, p in enumerate(peaks) if p[1] >= Fraction(1, 10 ** 9) * S]
    if any(js[i] is None for i in sig):
        i = next(i for i in sig if js[i] is None)
        issues.append(("C03", "mz", f"peak {i} (m/z {float(peaks[i][0]):.6f}, intensity {float(peaks[i][1]):.3e}) is not the "
                       f"probability-weighted mean mass of any aggregated variant (to 1e-6)"))
    else:
        sj = [js[i] for i in sig]
        if any(b <= a for a, b in zip(sj, sj[1:])):
            issues.append(("C03", "distinct", f"significant peaks map to variants {sj}: not distinct and increasing"))
        else:
            # intensity ratios = exact probability ratios
            ref = max(sig, key=lambda i: peaks[i][1])
            for i in sig:
                want = spec[js[i]][1] / spec[js[ref]][1]
                got = peaks[i][1] / peaks[ref][1]
                if not close(got, want, rel=1e-9, abs_=1e-12):
                    issues.append(("C03", "ratio", f"intensity ratio of variants {js[i]}/{js[ref]} is {float(got):.12g}, exact {float(want):.12g}"))
                    break
    # ---- C03 single atom: exactly one peak per tabulated isotope, at its mass, with its abundance ----
    if len(comp) == 1 and comp[0][1] == 1 and req.startswith("n:") and int(req[2:]) >= T[comp[0][0]]["span"] + 1:
        isos = T[comp[0][0]]["isos"]
        tot = sum(Fraction(i["abundance"]) for i in isos)
        want = sorted((conv(Fraction(i["mass"])), Fraction(i["abundance"]) / tot) for i in isos)
        if len(peaks) != len(want):
            issues.append(("C03", "single-atom", f"{len(peaks)} peaks for an element with {len(want)} tabulated isotopes"))
        elif not all(close(a[0], b[0], abs_=1e-6, rel=0) and close(a[1], b[1], rel=1e-9) for a, b in zip(sorted(peaks), want)):
            issues.append(("C03", "single-atom", "peaks are not (isotope mass, isotope abundance) of the tabulated isotopes"))
    # ---- C09 requested count ----
    kind = req.split(":")[0]
    n_req = None
    if kind == "n" or kind == "some" or kind == "u":
        v = int(req.split(":")[1])
        n_req = v if v >= 1 and v < 2 ** 31 else None
    if n_req is not None and all(j is not None for j in js):
        m = min(n_req, tv + 1)
        if any(j >= m for j in js):
            issues.append(("C09", "fixed-range", f"a request for {n_req} peaks returned variant {max(js)} (range is the first {m})"))
        else:
            tot = sum(spec[j][1] for j in range(m) if j in spec)
            if len(spec) >= m and tot > 0:
                missing = [j for j in range(m) if spec[j][1] / tot >= CUT2 and j not in js]
                if missing and not boundary:
                    issues.append(("C09", "fixed-complete", f"a request for {n_req} peaks omits variant {missing[0]} whose share of the range "
                                   f"is {float(spec[missing[0]][1] / tot):.3e}"))
                for i, j in enumerate(js):
                    if peaks[i][1] >= Fraction(1, 10 ** 9) and not close(peaks[i][1], spec[j][1] / tot, rel=1e-8, abs_=1e-13):
                        issues.append(("C09", "fixed-normalised", f"variant {j} has intensity {float(peaks[i][1]):.12g}, its share of the "
                                       f"first {m} variants is {float(spec[j][1] / tot):.12g}"))
                        break
    if kind in ("guess", "none") and all(j is not None for j in js):
        m = min(g, tv + 1)
        if len(peaks) > 300:
            issues.append(("C09", "default-cap", f"default request returned {len(peaks)} peaks (at most 300)"))
        tot = sum(p for _, p in spec.values())
        need = [j for j in range(m) if j in spec and spec[j][1] / tot >= Fraction(1, 10 ** 9)]
        missing = [j for j in need if j not in js]
        if missing:
            issues.append(("C09", "default-cover", f"default request (g={g}) does not cover variant {missing[0]}"))
    return issues


def run_c03_c09(r: Run, prop):
    T = table()
    rng = random.Random(r.seed + 3)
    thorough = r.tier == "thorough"
    comps, domain, good = gen_compositions(r, T)
    cases = []
    # single atom of every element of the table
    for s, v in T.items():
        for req in (f"n:{v['span'] + 1}", "n:300"):
            cases.append(([(s, 1)], req, 0, PROTON, "vec"))
    reqs = requests(rng, thorough)
    for comp in comps:
        mass = sum(T[s]["mono"] * n for s, n in comp)
        for req in (reqs if len(comp) <= 3 else rng.sample(reqs, 3)):
            if mass > 4000 and req in ("n:150", "n:300"):
                continue   # exact evaluation at order 150-300 on thousands of atoms: hours
            z = rng.choice([0, 0, 1, 2, -1, 3, -3])
            # mostly the proton; sometimes sodium, an electron lost (a NEGATIVE carrier), nothing; rarely the extremes of the
            # charge's type
            ca = rng.choice([PROTON] * 6 + [Fraction(22989218, 10 ** 6), Fraction(-549, 10 ** 6), Fraction(-1007276, 10 ** 6), Fraction(0)])
            if rng.random() < 0.03:
                z = rng.choice([2147483647, -2147483648, -2147483647])
            cases.append((comp, req, z, ca, rng.choice(["vec", "map"])))
    # the cut loop's leading branch: variants below 1e-10 of the requested range BEFORE the first real one are kept
    for comp, req, z in ([("Mg", 100)], "n:100", 2), ([("Mg", 150)], "n:120", -1), ([("Mg", 100), ("Si", 10)], "n:110", 1), \
            ([("Mg", 100)], "n:100", 0):
        cases.append((comp, req, z, PROTON, "vec"))
    # explicit zero-count entries ("non-negative counts"): what is left after subtracting an adduct.  The entry contributes
    # nothing, yet the code multiplies its principal abundance into the monoisotopic intensity, so every unnormalised share
    # shrinks (Mg 0.79, Si 0.92, Ne 0.90): tail variants must still get their masses
    for base_c in ([("C", 2), ("H", 4), ("O", 1)], [("C", 3), ("H", 4), ("O", 2), ("K", 1)], [("C", 1), ("H", 2), ("O", 3), ("N", 1)],
                   [("H", 9), ("N", 1), ("K", 1)], [("C", 6), ("H", 12), ("O", 6)]):
        for zsym in ("Mg", "Si", "Ne", "K", "S"):
            if any(sy == zsym for sy, _ in base_c):
                continue
            pos = rng.randint(0, len(base_c))
            comp = base_c[:pos] + [(zsym, 0)] + base_c[pos:]
            for req in ("n:20", "n:40", "guess"):
                cases.append((comp, req, rng.choice([0, 1, -1, 2]), PROTON, rng.choice(["vec", "map"])))
    # peak requests and atom counts named by new literals of the changed code
    from . import common as _c
    for d in _c.dict_ints(1, 400):
        cases.append(([("C", 60), ("H", 120), ("O", 60)], f"n:{d}", 0, PROTON, "vec"))
        cases.append(([("Mg", min(d, 300)), ("C", 2)], "n:7", 1, PROTON, "map"))
    if prop == "C09":
        # fraction requests on either side (one f32 step) of every point where the resolved count changes: "a request by
        # signal fraction f returns the same pattern as a fixed request for the Poisson estimate of f" — of the f32 the caller
        # passed, widened exactly
        for comp in ([("C", 6), ("H", 12), ("O", 6)], [("C", 34), ("H", 53), ("O", 15), ("N", 7)], [("C", 30), ("H", 62)], [("K", 3)]):
            mass = sum(T[s]["mono"] * n for s, n in comp)
            for f in boundary_fractions(mass, 8 if thorough else 6):
                cases.append((comp, f"f:{f.numerator}/{f.denominator}", rng.choice([0, 1]), PROTON, "vec"))
        for zx in (2147483647, -2147483648, -2147483647):
            cases.append(([("C", 6), ("H", 12), ("O", 6)], "n:5", zx, PROTON, "vec"))
            cases.append(([("K", 3)], "guess", zx, Fraction(-549, 10 ** 6), "map"))
        pool = [[("C", 6), ("H", 12), ("O", 6)], [("K", 3)], [("Si", 2), ("Mg", 1), ("O", 4)], [("H", 2), ("O", 1)],
                [("Cl", 2)], [("K", 300)], [("Br", 4)], [("S", 8)], [("Ca", 1), ("Cl", 2)], [("C", 60), ("H", 120), ("O", 60)]]
        ns = list(range(-3, 41)) + [64, 150, 300, 320] if thorough else [-3, -1, 0, 1, 2, 3, 4, 7, 8, 9, 16, 33, 64, 300, 320]
        for comp in pool:
            big = sum(T[s]["span"] * k for s, k in comp) > 100
            for n in ns:
                if big and n > 40 and not thorough:
                    continue   # exact evaluation at order ~300 takes minutes: thorough tier only
                cases.append((comp, f"n:{n}", 0, PROTON, "vec"))
            for req in ("n:2147483647", "n:-2147483648", "u:0", "u:3", "u:4294967297", "none", "some:4", "some:0",
                        "f:0/1", "f:1/8", "f:1/2", "f:7/8", "f:127/128", "f:8191/8192", "f:1/1"):
                if big and req in ("n:2147483647", "f:1/1", "f:8191/8192") and not thorough:
                    continue   # these resolve to an order of several hundred on a large composition
                cases.append((comp, req, 1, PROTON, "map"))
    # the same requests through the public constructors IsotopicDistribution::from_composition (d) and
    # from_composition_and_cache (c): a quarter of the composition cases, judged exactly like the function
    extra = []
    for i, (c, req, z, ca, form) in enumerate(cases):
        if i % 4 == 0 and not (len(c) == 1 and c[0][1] == 1):
            extra.append((c, req, z, ca, ("d" if (i // 4) % 2 == 0 else "c") + form))
    cases += extra
    # a composition whose mass memo is stale (fmass, then counts written through the public field): fixed requests only
    # (the default and fraction requests size themselves from mass(), which the memo answers)
    for i, (c, req, z, ca, form) in enumerate(list(cases)):
        if i % 7 == 3 and req.startswith("n:") and int(req[2:]) >= 1 and form in ("vec", "map") and not (len(c) == 1 and c[0][1] == 1):
            cases.append((c, req, z, ca, "s" + form))
    lines = [f"brain\t{pairs_of(c)}\t{req}\t{z}\t{fr(ca)}\t{form}" for c, req, z, ca, form in cases]
    impl = r.impl("brain", lines, stall=120)
    # the model has one entry point: the constructor forms are modelled as the function (same request semantics)
    model = r.model("brain", [f"brain\t{pairs_of(c)}\t{req}\t{z}\t{fr(ca)}\t{form[-3:]}" for c, req, z, ca, form in cases], stall=600)
    corr_ok = True
    seen = set()
    # elements whose own single-atom pattern is already wrong (any clause of either property): a failing
    # composition is attributed to such an element when it contains one
    single_bad = set()
    for case, il, dl in zip(cases, impl, model):
        comp = case[0]
        if len(comp) == 1 and comp[0][1] == 1:
            if any(p in ("C03", "C09") for p, _, _ in judge(case, il, dl, T)):  # ("SKIP" is neither)
                single_bad.add(comp[0][0])
    r.coverage["elements_with_wrong_single_atom_pattern"] = sorted(single_bad)
    for case, line, il, dl in zip(cases, lines, impl, model):
        comp, req, z, ca, form = case
        els = tuple(sorted(s for s, _ in comp))
        kindc = ("single" if len(comp) == 1 and comp[0][1] == 1 else "comp")
        npk = il.count(",") + 1 if il.startswith("ok") else il.split(" ")[0]
        r.case((kindc, len(comp), req.split(":")[0], z, npk if isinstance(npk, str) else min(npk, 12), form[:-3]),
               {"line": line[:200], "impl": il[:160]})
        for p, clause, detail in judge(case, il, dl, T):
            if p == "BROKEN":
                raise Broken(detail)
            if p == "SKIP":
                r.coverage["skipped_poisson_overflow"] = r.coverage.get("skipped_poisson_overflow", 0) + 1
                continue
            kind = "impl_vs_spec"
            if p == "CORR":
                p, kind = prop, "corr_broken"
            if p != prop:
                r.coverage["disagreements_attributed_to_other_properties"] = r.coverage.get("disagreements_attributed_to_other_properties", 0) + 1
                continue
            corr_ok = False
            # attribution: a composition fails because of an element whose own pattern is wrong, if it holds one
            culprits = sorted(s for s, n in comp if s in single_bad and n > 0)
            wit = {"element": culprits[0]} if culprits else {"elements": list(els)[:4]}
            if len(form) == 4:
                wit["entry"] = {"d": "IsotopicDistribution::from_composition", "c": "IsotopicDistribution::from_composition_and_cache",
                                "s": "composition with a stale mass memo"}[form[0]]
            if (clause, json.dumps(wit)) in seen:
                continue
            seen.add((clause, json.dumps(wit)))
            r.violation(clause, wit, f"isotopic_variants({pairs_of(comp)}, {req}, z={z}): {detail}", expected=dl.split("\t")[2][:400] if "\t" in dl else None,
                        observed={"lines": [line], "impl": il[:400]}, model=dl.split("\t")[0][:400], kind=kind)
    if prop == "C03":
        # thousands of atoms, a handful of peaks: the exact ratios of the first variants by truncated polynomial powers
        # in python (the Lean oracle multiplies n times); the product of abundances with counts is near / below the
        # smallest double here
        for c, n_req, z in (([("Mg", 3150)], 2, 0), ([("Mg", 3150)], 3, 1), ([("Mg", 3200)], 5, 2), ([("Mg", 2600), ("K", 2000)], 4, 0),
                            ([("Mg", 3000), ("C", 50)], 3, -1), ([("Si", 9400)], 3, 1), ([("C", 6144), ("H", 12288), ("O", 6144)], 6, 1)):
            line = f"brain\t{pairs_of(c)}\tn:{n_req}\t{z}\t{fr(PROTON)}\tvec"
            il = r.impl("brain", [line], stall=120)[0]
            ip = parse_pattern(il)
            r.case(("huge-ratio", n_req, z, il.split(" ")[0]), {"line": line[:160], "impl": il[:120]})
            probs = py_agg_prob(c, T, n_req - 1)
            tot = sum(probs)
            why = None
            if isinstance(ip, str) or len(ip[1]) == 0:
                why = f"returned {il[:40]}"
            else:
                pk = ip[1]
                want = [p / tot for p in probs if p / tot >= Fraction(2, 10 ** 10)]
                got = [q[1] for q in pk if q[1] >= Fraction(2, 10 ** 10)]
                if len(got) != len(want) or not all(close(a, b, rel=1e-9) for a, b in zip(got, want)):
                    why = (f"intensities {[float(x) for x in got][:4]} but the first {n_req} variants have exact shares "
                           f"{[float(x) for x in want][:4]}")
                else:
                    # "m/z is the probability-weighted mean mass of the variant": the exact centres by the same series
                    centres = py_agg_mass(c, T, n_req - 1)
                    kept = [(j, p / tot) for j, p in enumerate(probs) if p / tot >= Fraction(2, 10 ** 10)]
                    big = [q for q in pk if q[1] >= Fraction(2, 10 ** 10)]
                    for (j, share), q in zip(kept, big):
                        exp = centres[j] if z == 0 else (centres[j] + z * PROTON) / abs(z)
                        if not close(q[0], exp, rel=min(1e-6, max(1e-9, 1e-13 / float(share)))):
                            why = f"variant {j}: m/z {float(q[0]):.9f}, the probability-weighted mean mass gives {float(exp):.9f}"
                            break
            if why is not None:
                corr_ok = False
                r.violation("ratio", {"elements": sorted(s for s, _ in c)[:4], "scale": "huge"},
                            f"isotopic_variants({pairs_of(c)}, n:{n_req}, z={z}): {why}", observed={"lines": [line], "impl": il[:300]})
    if prop == "C09":
        # compositions far beyond what the exact oracle can expand (the product of the most abundant isotopes'
        # abundances, with the counts, underflows a double): the clauses that need no oracle — non-empty, finite,
        # non-negative, sum <= 1, strictly increasing m/z inside [lightest, heaviest] isotopologue
        huge = [[("Mg", 3200)], [("Mg", 3200), ("C", 10)], [("Si", 9500)], [("K", 11000)],
                [("C", 55800), ("H", 111600), ("O", 55800)], [("C", 6144), ("H", 12288), ("O", 6144)]]
        hcases = [(c, req, z) for c in huge for req, z in (("n:5", 1), ("guess", 0), ("f:1/2", -2), ("n:300", 2))]
        hlines = [f"brain\t{pairs_of(c)}\t{req}\t{z}\t{fr(PROTON)}\tvec" for c, req, z in hcases]
        for (c, req, z), line, il in zip(hcases, hlines, r.impl("brain", hlines, stall=120)):
            ip = parse_pattern(il)
            r.case(("huge", req.split(":")[0], z, il.split(" ")[0]), {"line": line[:160], "impl": il[:120]})
            why = None
            if isinstance(ip, str):
                why = ("total", f"returned {il[:40]}")
            else:
                pk = ip[1]
                lo = sum(T[s]["lo"] * n for s, n in c)
                hi = sum(T[s]["hi"] * n for s, n in c)
                conv = (lambda m: m) if z == 0 else (lambda m: (m + z * PROTON) / abs(z))
                lo_c, hi_c = sorted([conv(lo), conv(hi)])
                if not pk:
                    why = ("nonempty", "empty pattern for a non-empty composition")
                elif any(b[0] <= a[0] for a, b in zip(pk, pk[1:])):
                    why = ("mz-increasing", "m/z values are not strictly increasing")
                elif any(q[0] < lo_c - Fraction(1, 1000) or q[0] > hi_c + Fraction(1, 1000) for q in pk):
                    why = ("mz-range", "an m/z lies outside [lightest, heaviest] isotopologue")
                elif any(q[1] < 0 for q in pk) or sum(q[1] for q in pk) > 1 + Fraction(1, 10 ** 9):
                    why = ("intensity", "negative intensity or a sum above 1")
                elif req in ("guess", "none") and len(pk) > 300:
                    why = ("default-cap", f"default request returned {len(pk)} peaks (at most 300)")
                elif req.startswith("n:") and len(pk) > int(req[2:]):
                    why = ("count", f"{len(pk)} peaks for a request of {req[2:]}")
            if why is not None:
                corr_ok = False
                r.violation(why[0], {"elements": sorted(s for s, _ in c)[:4], "scale": "huge"},
                            f"isotopic_variants({pairs_of(c)}, {req}, z={z}): {why[1]}", observed={"lines": [line], "impl": il[:300]})
    r.oblige(f"correspondence: isotopic_variants agrees with the model and the exact aggregated distribution ({prop} observables)", "corr", corr_ok)
    r.assumptions.append("f64 rounding not modelled: m/z compared to 1e-6, intensity ratios to 1e-9; variants whose share is within 1e-6 (relative) of the 1e-10 cut are skipped")


def shrink_comp(r, case, prop, clause, T):
    """if some single element of the composition (with its own count) already fails the clause, name it"""
    comp, req, z, ca, form = case
    if len(comp) == 1:
        return comp[0][0]
    for s, n in comp:
        if n == 0:
            continue
        c2 = ([(s, n)], req, z, ca, form)
        line = f"brain\t{pairs_of(c2[0])}\t{req}\t{z}\t{fr(ca)}\t{form}"
        il = r.impl("brain", [line])[0]
        dl = r.model("brain", [line])[0]
        if any(p == prop and cl == clause for p, cl, _ in judge(c2, il, dl, T)):
            return s
    return None


# ---- C08 ----------------------------------------------------------------------------------------
POOL = [("C:0=6,H:0=12,O:0=6", "n:5", 0), ("C:0=600,H:0=1200,O:0=600", "guess", 1), ("H:0=2,O:0=1", "n:300", 0),
        ("O:0=6,C:0=6,H:0=12", "n:2", 2), ("C:0=2,S:0=1", "n:17", 1), ("C:0=34,H:0=53,O:0=15,N:0=7", "guess", 1),
        ("H:0=1", "n:1", 0), ("K:0=3,C:0=1", "f:7/8", -1), ("O:0=1,H:0=2", "guess", 3), ("C:0=100", "n:64", 1),
        ("S:0=2,C:0=2", "n:3", 0), ("N:0=7,O:0=15,H:0=53,C:0=34", "n:9", 2),
        # elements whose polynomial has degree >= 3: a short request followed by a longer one must not damage the
        # cached constants (generator vs stateless and vs the model, which shares the recorded defect D5)
        ("C:0=10,H:0=12,N:0=2,O:0=8,Zn:0=1", "n:2", 0), ("C:0=10,H:0=12,N:0=2,O:0=8,Zn:0=1", "n:12", 1),
        ("Ca:0=2,C:0=1", "n:3", 0), ("Ca:0=2,C:0=1", "n:14", 0), ("Se:0=2", "n:2", 1), ("Se:0=2,H:0=2", "n:15", 0),
        ("Sn:0=1,C:0=4", "n:20", 1), ("Sn:0=1", "n:2", 0),
        # calls that FAIL or do nothing in the middle of a history: a negative count (outside every property's domain: the
        # real code panics after checking constants out of the cache), a zero count, the empty composition
        ("C:0=-3,H:0=2", "n:4", 0), ("H:0=0,C:0=2", "n:3", 0), ("-", "guess", 1)]
FAILING = 3


def call_str(c):
    # carrier and representation are part of the call: they vary with the request (deterministically, so that a history replays)
    import zlib
    h = zlib.crc32(f"{c[0]}|{c[1]}|{c[2]}".encode())
    carrier = ("1007276/1000000", "22989218/1000000", "-549/1000000", "1007276/1000000", "0/1")[h % 5]
    form = ("vec", "map")[(h // 5) % 2]
    return f"{c[0]};{c[1]};{c[2]};{carrier};{form}"


def same_peaks(a, b, tol):
    pa, pb = parse_pattern(a), parse_pattern(b)
    if isinstance(pa, str) or isinstance(pb, str):
        return a == b
    return len(pa[1]) == len(pb[1]) and all(close(x[0], y[0], rel=tol) and close(x[1], y[1], rel=tol, abs_=1e-300)
                                            for x, y in zip(pa[1], pb[1]))


def run_c08(r: Run):
    rng = random.Random(r.seed + 8)
    thorough = r.tier == "thorough"
    depth = 4 if thorough else 3
    pool = POOL if thorough else POOL[:5] + POOL[12:17] + POOL[-FAILING:]
    hists = []
    for L in range(1, depth + 1):
        for h in itertools.product(range(len(pool)), repeat=L):
            hists.append([pool[i] for i in h])
    for _ in range(60 if thorough else 12):
        hists.append([rng.choice(POOL) for _ in range(rng.randint(5, 200 if thorough else 60))])
    lines = ["brainhist\t" + "|".join(call_str(c) for c in h) for h in hists]
    impl = r.impl("brainhist", lines, stall=120)
    # the model is exact-rational and much slower: it follows a sample of the histories
    sample = list(range(0, len(lines), max(1, len(lines) // (400 if thorough else 120))))
    model = dict(zip(sample, r.model("brainhist", [lines[i] for i in sample], stall=600)))
    corr_ok = True
    for hi, (h, line, il) in enumerate(zip(hists, lines, impl)):
        outs = il.split("|")
        r.case(("hist", min(len(h), 5), tuple(c[0] for c in h[:3]) if len(h) <= 3 else len(set(h))), {"history": [call_str(c) for c in h[:6]], "impl": il[:120]})
        if len(outs) != len(h):
            corr_ok = False
            r.violation("history", {"kind": "protocol"}, f"generator history produced {il[:80]}", observed={"lines": [line[:2000]]})
            continue
        for k, o in enumerate(outs):
            gen_s, st_s, ck_s = (o.split("~") + ["", ""])[:3] if "~" in o else (o, "", "")
            if ck_s and not same_peaks(ck_s, st_s, 1e-12):
                corr_ok = False
                r.violation("history", {"last_call": h[k][0], "len": min(k + 1, 4), "path": "from_composition_and_cache"},
                            f"after {k} earlier calls sharing one IsotopicConstantsCache, from_composition_and_cache(..).isotopic_variants for "
                            f"{h[k][0]} @ {h[k][1]} differs from the stateless function's", expected=st_s[:300],
                            observed={"lines": ["brainhist\t" + "|".join(call_str(c) for c in h[: k + 1])], "impl": ck_s[:300]})
                break
            if not same_peaks(gen_s, st_s, 1e-12):
                corr_ok = False
                # shrink: shortest prefix/suffix that still differs
                short = h[: k + 1]
                r.violation("history", {"last_call": h[k][0], "len": min(len(short), 4)},
                            f"after {k} earlier calls the generator's pattern for {h[k][0]} @ {h[k][1]} differs from the stateless function's",
                            expected=st_s[:300], observed={"lines": ["brainhist\t" + "|".join(call_str(c) for c in short)], "impl": gen_s[:300]})
                break
        if hi in model and corr_ok:
            mouts = model[hi].split("|")
            for k, (o, mo) in enumerate(zip(outs, mouts)):
                if "=-" in h[k][0]:
                    continue   # negative counts: unspecified (the model computes, the code panics); the calls AFTER it count
                if not same_peaks(o.split("~")[0], mo.split("~")[0], 1e-7):
                    corr_ok = False
                    r.violation("corr-history", {"last_call": h[k][0]}, f"generator result for call {k} ({h[k][0]}) differs from the model's",
                                expected=mo[:300], observed={"lines": [line[:2000]], "impl": o[:300]}, kind="corr_broken")
                    break
    # every ordered pair of distinct table elements on one generator (X1 then Y1, full ladder): whatever the cache
    # is keyed by, two elements that collide under that key show here (the theorem's hypothesis is SymInj: a
    # symbol determines its element)
    T = table()
    syms = sorted(T)
    plines, pmeta = [], []
    for a in syms:
        for b in syms:
            if a != b:
                plines.append(f"brainhist\t{a}:0=1;n:{T[a]['span'] + 1};0;1007276/1000000;vec|{b}:0=1;n:{T[b]['span'] + 1};0;1007276/1000000;vec")
                pmeta.append((a, b))
    pout = r.impl("brainhist", plines, stall=120)
    npair_bad = 0
    for (a, b), line, il in zip(pmeta, plines, pout):
        outs = il.split("|")
        good = len(outs) == 2
        if good:
            for o in outs:
                gen_s, st_s, ck_s = (o.split("~") + ["", ""])[:3]
                if gen_s != st_s and not same_peaks(gen_s, st_s, 1e-12):
                    good = False
                if ck_s != st_s and not same_peaks(ck_s, st_s, 1e-12):
                    good = False
        r.evaluations += 1
        if not good:
            corr_ok = False
            npair_bad += 1
            if npair_bad <= 4:
                r.violation("history", {"pair": [a, b]}, f"one generator asked for {a} and then for {b} returns a pattern for {b} that differs "
                            f"from the stateless function's", expected=il.split("|")[-1].split("~")[1][:300],
                            observed={"lines": [line], "impl": il[:300]})
    # every element on its own generator: a SHORT first request (2..7 peaks — for some elements exactly the length at which
    # cached polynomial vectors would be cut or skipped), then longer ones that need every term the element has and more
    llines, lmeta = [], []
    for a in syms:
        span = T[a]["span"]
        if span < 1:
            continue
        for k in range(2, 8):
            calls = [(f"{a}:0=1", f"n:{k}"), (f"{a}:0=2,H:0=1", f"n:{k + 2}"), (f"{a}:0=2", f"n:{span + 4}"), (f"{a}:0=1,C:0=2", f"n:{2 * span + 3}"),
                     (f"{a}:0=1", f"n:{k}")]
            llines.append("brainhist\t" + "|".join(f"{c};{q};0;1007276/1000000;vec" for c, q in calls))
            lmeta.append((a, k))
    lout = r.impl("brainhist", llines, stall=120)
    nlad_bad = 0
    for (a, k), line, il in zip(lmeta, llines, lout):
        outs = il.split("|")
        good = len(outs) == 5
        if good:
            for o in outs:
                gen_s, st_s, ck_s = (o.split("~") + ["", ""])[:3]
                if gen_s != st_s and not same_peaks(gen_s, st_s, 1e-12):
                    good = False
                if ck_s != st_s and not same_peaks(ck_s, st_s, 1e-12):
                    good = False
        r.evaluations += 1
        if not good:
            corr_ok = False
            nlad_bad += 1
            if nlad_bad <= 4:
                r.violation("history", {"ladder": a, "first": k}, f"one generator asked for {a} with {k} peaks and then for longer patterns of {a} returns "
                            f"a pattern that differs from the stateless function's", observed={"lines": [line], "impl": il[:300]})
    r.case(("element-ladders", nlad_bad == 0), {"ladders": len(llines), "differing": nlad_bad})
    r.coverage["element_ladders"] = dict(histories=len(llines), differing=nlad_bad)
    r.case(("element-pairs", npair_bad == 0), {"pairs": len(plines), "differing": npair_bad})
    r.coverage["element_pairs"] = dict(ordered_pairs=len(plines), differing=npair_bad)
    # repetition and concurrency: 16 threads, own generators + stateless calls, compared with single-threaded results
    cl = ["brainconc\t" + "|".join(call_str(c) for c in POOL)]
    out = r.impl("brainconc", cl, stall=300)[0]
    r.case(("concurrency", out.split(" ")[0]), {"line": cl[0][:200], "impl": out})
    if not out.startswith("ok"):
        corr_ok = False
        r.violation("concurrency", {"kind": out.split(" ")[0]}, f"16 threads: {out[:200]}", observed={"lines": cl})
    # structural scan: no shared mutable state in the generator / table modules
    import re
    from .common import REPO
    hits = []
    for f in ("src/isotopic_pattern/baffling.rs", "src/table.rs", "src/isotopic_pattern/poisson.rs"):
        try:
            txt = (REPO / f).read_text()
        except OSError:
            continue
        for pat in (r"static\s+mut", r"\bunsafe\b", r"\bRefCell\b", r"\bCell<", r"\bMutex\b", r"\bRwLock\b", r"Atomic[A-Z]", r"thread_local"):
            if re.search(pat, txt):
                hits.append(f"{f}: {pat}")
    r.coverage["shared_state_scan"] = hits or "none of static mut / unsafe / Cell / RefCell / Mutex / RwLock / Atomic* / thread_local in baffling.rs, table.rs, poisson.rs"
    r.coverage["histories"] = dict(total=len(hists), exhaustive_depth=depth, pool=len(pool), model_followed=len(sample))
    r.oblige("correspondence: generator histories agree with the stateless function, with the model, and across 16 threads", "corr", corr_ok)
    r.assumptions.append("concurrency: not a theorem about schedules; purity theorem + Rust's &mut exclusivity (trusted) + structural scan + 16-thread observation")


def replay(r: Run, path):
    rec = json.loads(open(path).read())
    r.build_harness()
    for line in rec["observed"]["lines"]:
        mode = line.split("\t")[0]
        print("case :", line[:400])
        print("impl :", r.impl(mode, [line])[0][:800])
        print("model:", r.model(mode, [line])[0][:800])
    return 0
