"""C01 — formula parser / formula text (model: Model/Formula.lean; grammar and oracle: Spec/Grammar.lean)."""
from .common import Run
from . import formula

RULES = {
 "C01": ("grammar-directed formulas over the regenerated table: every table key x {no count, count} exhaustively, every "
         "token adjacency of the 8-state machine, random ASTs nested to depth 6, nesting depth up to 2000, counts up to "
         "i32::MAX with per-key totals bounded; all public entry points called on every case; class = (outcome, "
         "oracle verdict, length/shape bucket)"),
 "C05": ("ALL strings up to a fixed length over an 18-character alphabet with one representative per character class "
         "the parser distinguishes (upper, lower, unknown upper, digits, brackets, parens, space, sign, non-ASCII "
         "alphabetic / numeric / CJK, NUL), mutations of well-formed formulas, random longer strings, deep and "
         "unbalanced nesting; every case under catch_unwind in a child process; class = (outcome, oracle verdict, shape)"),
 "C07": ("compositions over all table keys with counts in {1,2,9,10,999,1e6}, sizes 1-12, all permutations of insertion "
         "order for small key sets, list / map / both enum forms; Display, parse back through every entry point, serde "
         "JSON round trips of ChemicalCompositionVec, ChemicalCompositionMap and ElementSpecification; class = (form, "
         "size, has isotopes, outcome)"),
}
MODULES = ["Props.C01", "Inst.C01", "Lemmas.Digits", "Lemmas.PStep", "Inst.C01Ex", "Props.C01I32"]


def run(r: Run):
    ok, out = r.build_harness()
    if not ok:
        r.oblige("harness builds against /repo", "corr", False, out[-800:])
        return r.finish(RULES["C01"])
    r.regen()
    r.lake_build(["driver"])
    r.prove(MODULES)
    if r.tier == "thorough":
        r.leanchecker(MODULES)
    if "C01" == "C07":
        formula.run_display(r)
    else:
        formula.run_parse(r, "C01")
    return r.finish(RULES["C01"])


replay = formula.replay
