"""C02 — composition machine check (model: Model/Comp*.lean; spec: Spec/FinMap.lean)."""
import json
from .common import Run
from . import comp

RULE = ("histories over the public mutation/arithmetic API of the three composition types: a corpus of minimal "
        "past failures, ALL histories up to a fixed depth over a reduced alphabet in lock-step on the four "
        "forms, random histories (<= 40 ops, cache-populating calls injected) in lock-step and with mixed "
        "representations; class of a case = (form, set of op kinds used)")
MODULES = ["Props.C02", "Lemmas.Ents", "Props.C15Float", "Inst.C02Mass", "Props.C02Float", "Props.C02FloatPerm"]


def run(r: Run):
    ok, out = r.build_harness()
    if not ok:
        r.oblige("harness builds against /repo", "corr", False, out[-800:])
        return r.finish(RULE)
    r.regen()
    r.lake_build(["driver"])
    r.prove(MODULES)
    if r.tier == "thorough":
        r.leanchecker(MODULES)
    comp.run_all(r, "C02")
    return r.finish(RULE)


def replay(r: Run, path):
    rec = json.loads(open(path).read())
    ops = rec["observed"]["history"]
    line = "comp\t4\t" + ";".join(ops)
    r.build_harness()
    il = r.impl("comp", [comp.case_line(dict(ops=ops, nregs=4), impl=True)])[0]
    ml = r.model("comp", [line])[0]
    print("history:", ops)
    for op, a, b in zip(ops, il.split(";"), ml.split(";")):
        print(f"  {op}\n    impl : {a}\n    model: {b}")
    issues = comp.compare_case(dict(ops=ops, nregs=4, kind="replay"), il, ml)
    print("issues:", issues)
    return 1 if issues else 0
