"""C03 — BRAIN coarse isotopic patterns (model: Model/Brain.lean with the recorded defect D5; oracle: Spec/IsoDist.lean)."""
from .common import Run
from . import brain

RULES = {
 "C03": ("X1 for every element of the table (requests V+1 and 300) exhaustively; named and generated compositions over the "
         "elements whose lightest isotope is the most abundant one (pairs over a count grid, random compositions up to "
         "several hundred / thousand atoms, shuffled entry order, list and map form) x requests {guess, fixed, fraction} x "
         "charges; each returned peak carrying >= 1e-9 of the signal is matched to an exact aggregated variant "
         "(m/z to 1e-6, ratios to 1e-9); class = (single/comp, #elements, request kind, charge, #peaks)"),
 "C08": ("ALL histories up to length 3 (quick) / 4 (thorough) on one generator over a pool of requests that share elements "
         "but differ in size, order and peak request, random histories up to 60 / 200 calls; after every call the "
         "generator's pattern is compared with the stateless function's on the same arguments (1e-12 relative) and, on a "
         "sample, with the exact model's generator; 16 threads with own generators + stateless calls against the "
         "single-threaded results; class = (history length, calls)"),
 "C09": ("the C03 cases plus, on ten compositions including the gap/valley ones (Cl2, K300, Br4, S8, CaCl2), every integer "
         "request in a range around -3..320, i32 extremes, usize and Option forms, fractions in [0,1]; shape, range, "
         "normalisation and coverage judged against the exact aggregated distribution; class as for C03"),
}
MODULES = ["Props.C03", "Inst.C03", "Lemmas.BrainLists", "Lemmas.BrainNewton", "Lemmas.BrainProb", "Lemmas.BrainIso", "Lemmas.BrainPopulate", "Lemmas.BrainSpecPS", "Lemmas.BrainSpecMass", "Lemmas.BrainMass", "Props.C03Exact", "Inst.C03Exact", "Inst.C03Single", "Props.C03Series", "Props.C03Scale"]


def run(r: Run):
    ok, out = r.build_harness()
    if not ok:
        r.oblige("harness builds against /repo", "corr", False, out[-800:])
        return r.finish(RULES["C03"])
    r.regen()
    r.lake_build(["driver"])
    r.prove(MODULES)
    if r.tier == "thorough":
        r.leanchecker(MODULES)
    if "C03" == "C08":
        brain.run_c08(r)
    else:
        brain.run_c03_c09(r, "C03")
    return r.finish(RULES["C03"])


replay = brain.replay
