"""C05 — formula parser / formula text (model: Model/Formula.lean; grammar and oracle: Spec/Grammar.lean)."""
from .common import Run
from . import formula

RULES = {
 "C01": ("grammar-directed formulas over the regenerated table: every table key x {no count, count} exhaustively, every "
         "token adjacency of the 8-state machine, random ASTs nested to depth 6, nesting depth up to 2000, counts up to "
         "i32::MAX with per-key totals bounded; all public entry points called on every case; class = (outcome, "
         "oracle verdict, length/shape bucket)"),
 "C05": ("ALL strings up to a fixed length over an 18-character alphabet with one representative per character class "
         "the parser distinguishes (upper, lower, unknown upper, digits, brackets, parens, space, sign, non-ASCII "
         "alphabetic / numeric / CJK, NUL), mutations of well-formed formulas, random longer strings, deep and "
         "unbalanced nesting; every case under catch_unwind in a child process; class = (outcome, oracle verdict, shape)"),
 "C07": ("compositions over all table keys with counts in {1,2,9,10,999,1e6}, sizes 1-12, all permutations of insertion "
         "order for small key sets, list / map / both enum forms; Display, parse back through every entry point, serde "
         "JSON round trips of ChemicalCompositionVec, ChemicalCompositionMap and ElementSpecification; class = (form, "
         "size, has isotopes, outcome)"),
}
MODULES = ["Props.C05", "Props.C05Sound", "Props.C05Rejects", "Lemmas.Sound", "Inst.C05", "Inst.Variant", "Props.C05Named", "Inst.C05Named"]


def run(r: Run):
    ok, out = r.build_harness()
    if not ok:
        r.oblige("harness builds against /repo", "corr", False, out[-800:])
        return r.finish(RULES["C05"])
    r.regen()
    r.lake_build(["driver"])
    r.prove(MODULES)
    if r.tier == "thorough":
        r.leanchecker(MODULES)
    if "C05" == "C07":
        formula.run_display(r)
    else:
        formula.run_parse(r, "C05")
    deep_probe(r)
    return r.finish(RULES["C05"])


def deep_probe(r: Run):
    """nesting far beyond what the exhaustive and random streams hold (those go to depth 3000): the parser recurses
    once per group level, so the question is whether the recursion is bounded by anything but the text.  Implementation
    only (the Lean model of a 60 000-character text is quadratic too); one child process per depth."""
    from .common import cps
    outs = {}
    for depth in (1000, 30000):
        s = "(" * depth + "C" + ")" * depth
        line = f"parse\t{cps(s)}"
        il = r.run_lines(r.harness_bin(), "exec", [line], "harness", extra_args=("formula",), stall=300, timeout=900)[0]
        outs[depth] = il[:60]
        r.case(("deep", depth, il.split(" ")[0].split("\t")[0]), {"depth": depth, "impl": il[:80]})
        if il.startswith("abort") or il in ("timeout", "panic"):
            r.violation("total", {"input": "'(' * N + 'C' + ')' * N", "nesting_depth_at_least": 10000 if depth >= 10000 else depth},
                        f"parsing {depth} nested groups ('(' * {depth} + 'C' + ')' * {depth}): the process died ({il[:40]}) — "
                        f"one recursion level per group level",
                        expected="ok C:0=1 (a well-formed formula), or at worst an error value",
                        observed={"lines": [line], "impl": il[:100]})
            for o in r.obligations:
                pass
            r.notes.setdefault("deep_probe_failed", []).append(depth)
        elif il != "ok C:0=1":
            r.violation("deep", {"depth": depth}, f"{depth} nested groups around C parse to {il[:60]}", observed={"lines": [line], "impl": il[:100]})
    r.coverage["deep_nesting_probe"] = outs
    if r.notes.get("deep_probe_failed"):
        r.oblige("deep nesting: the parser survives 1000 and 30000 nested groups", "corr", False, str(outs))
    else:
        r.oblige("deep nesting: the parser survives 1000 and 30000 nested groups", "corr", True)


replay = formula.replay
