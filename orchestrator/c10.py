"""C10 — charge only rescales m/z; charge 0 means neutral masses."""
import json
import random
from fractions import Fraction

from .common import Run, Broken, close
from .peaks import fr, parse_pattern

RULE = ("every generator (Poisson, fine-structure convolution, BRAIN) on a pool of inputs x charges -8..=8 x carriers "
        "{proton, Na, electron-sized, 0}: the pattern at charge z is compared with the pattern at charge 0 of the "
        "same call (same length, bit-identical intensities, m/z = (m + z*carrier)/|z| to 1e-9 relative); "
        "neutral_mass(mass_charge_ratio(m)) = m on a grid; class = (generator, charge, carrier, length bucket)")
MODULES = ["Props.C10", "Props.C13Float"]
# proton, sodium, electron-sized, zero — and the same magnitudes NEGATIVE (an electron lost or gained: the conversion is
# (m + z*carrier)/|z| for a carrier of either sign)
CARRIERS = [Fraction(1007276, 10 ** 6), Fraction(22989218, 10 ** 6), Fraction(549, 10 ** 6), Fraction(0),
            Fraction(-549, 10 ** 6), Fraction(-1007276, 10 ** 6)]
FORMULAS = ["C6H12O6", "H2O", "C34H53O15N7", "C2H6S1", "Br2", "Cl2C1", "Fe2O3", "C60H120O60", "K3", "Si2Mg1O4",
            "S8", "Ca1Cl2", "C100H200N30O40S2"]


def pairs(formula):
    """'C6H12O6' -> 'C:0=6,H:0=12,O:0=6' (plain formulas only)"""
    import re
    return ",".join(f"{sym}:0={cnt or 1}" for sym, cnt in re.findall(r"([A-Z][a-z]*)(\d*)", formula))


def lines_for(gen, item, z, c):
    if isinstance(item[0], str) and "=" in item[0]:
        # explicit pairs (compositions with fixed isotopes): the relation between the charged and the neutral pattern of one
        # call holds whatever the generator makes of a label
        if gen == "conv":
            return f"conv\t{item[0]}\t{z}\t{fr(c)}\t{fr(item[1])}\tvec"
        return f"brain\t{item[0]}\t{'guess' if item[1] == 0 else 'n:%d' % item[1]}\t{z}\t{fr(c)}\tvec"
    if gen == "poisson":
        return f"poisson\t{fr(item[0])}\t{item[1]}\t{z}"
    if gen == "conv":
        return f"conv\t{pairs(item[0])}\t{z}\t{fr(c)}\t{fr(item[1])}\tvec"
    return f"brain\t{pairs(item[0])}\t{'guess' if item[1] == 0 else 'n:%d' % item[1]}\t{z}\t{fr(c)}\tvec"


def run(r: Run):
    ok, out = r.build_harness()
    if not ok:
        r.oblige("harness builds against /repo", "corr", False, out[-800:])
        return r.finish(RULE)
    r.regen()
    r.lake_build(["driver"])
    r.prove(MODULES)
    if r.tier == "thorough":
        r.leanchecker(MODULES)
    rng = random.Random(r.seed)
    thorough = r.tier == "thorough"
    corr_ok = True
    # 1. mass_charge_ratio / neutral_mass
    lines = []
    for m in [Fraction(0), Fraction(1, 8), Fraction(18010565, 10 ** 6), Fraction(1800), Fraction(123456789, 1000)] + \
            [Fraction(rng.randint(1, 10 ** 9), 1024) for _ in range(20)]:
        for z in range(-8, 9):
            for c in CARRIERS:
                lines.append(f"mz\t{fr(m)}\t{z}\t{fr(c)}")
    impl = r.impl("poisson", lines)
    model = r.model("poisson", lines)
    for line, il, ml in zip(lines, impl, model):
        _, m, z, c = line.split("\t")
        m, z, c = Fraction(m), int(z), Fraction(c)
        r.case(("mz", z, c == 0), {"line": line, "impl": il})
        if z == 0:
            continue   # mass_charge_ratio itself is only defined for z != 0; generators guard it
        a, b = il.split("\t")
        ma, mb = ml.split("\t")
        # Props/C13Float.lean, flNeutral_flMz_sharp: under the standard rounding model (u = 2^-53) the round trip
        # returns m within 5u(|m| + |z*carrier|)
        fbound = 5 * Fraction(1, 2 ** 53) * (abs(m) + abs(z * c))
        if not close(Fraction(a), Fraction(ma), rel=1e-12) or abs(Fraction(b) - m) > fbound:
            corr_ok = False
            r.violation("neutral-inverts", {"z_sign": z > 0}, f"mass_charge_ratio/neutral_mass({float(m)}, {z}, {float(c)}) = {a}, {b}",
                        expected=ml, observed={"line": line, "mode": "poisson"})
    # 2. generators: charge z vs charge 0
    streams = [("poisson", [(Fraction(m), n) for m in (0, 750, 1800, 5000, 100000) for n in (1, 2, 8, 40)] +
                # ladders long / heavy enough that the Poisson terms leave the range of a double before the end
                [(Fraction(40_000_000), 100), (Fraction(180_000), 200), (Fraction(10 ** 9), 60), (Fraction(2_260_000), 300)] +
                # masses that the carrier cancels exactly at charge -k (k protons removed from k protons): m/z is 0.0, a value
                # like any other
                [(Fraction(k * 1.007276), n) for k in range(1, 9) for n in (1, 3)], [CARRIERS[0]])]
    # fine-structure expansions are exponential: only compositions with at most ~1e5 arrangements
    small = ["H2O", "C2H6S1", "Br2", "Cl2C1", "Fe2O3", "K3", "Si2Mg1O4", "Ca1Cl2"]
    streams.append(("conv", [(f, Fraction(t)) for f in small for t in (Fraction(0), Fraction(1, 10 ** 6))] +
                    [("C:13=2,C:0=4,H:0=6", Fraction(1, 10 ** 6)), ("C:13=1,O:18=1", Fraction(0)), ("Cl:37=2,C:0=1", Fraction(0))] +
                    [(f"H+:0={k}", Fraction(0)) for k in (1, 2, 3, 5, 8)], CARRIERS))
    # plus compositions whose lightest variants carry < 1e-10 of the requested range (kept as leading entries
    # by the cut loop) and a 184 kDa polymer at the default and the maximal request
    streams.append(("brain", [(f, n) for f in FORMULAS for n in (0, 2, 5, 17)] +
                    [("Mg100", 100), ("Mg150", 120), ("Si400", 120), ("C6144H12288O6144", 0), ("C6144H12288O6144", 300),
                     ("C2000H4000", 0),
                     # compositions of monoisotopic elements only (a single variant; the variant bound is 0)
                     ("Na1", 0), ("Cs2I1", 3), ("P1F6", 0), ("Au4", 2), ("Na3I2", 0),
                     ("C:13=2,C:0=4,H:0=12,O:0=6", 6), ("C:13=1,O:18=1", 0), ("H:2=4,C:0=2", 3)] +
                    [(f"H+:0={k}", 0) for k in (1, 2, 3, 5, 8)], CARRIERS))
    for gen, items, carriers in streams:
        mode = {"poisson": "poisson", "conv": "conv", "brain": "brain"}[gen]
        zs = list(range(-8, 9))
        if gen != "poisson":
            zs = zs + [2147483647, -2147483647, -2147483648]   # the extremes of the charge's type
        lines, meta = [], []
        for item in items:
            for c in carriers:
                for z in zs:
                    lines.append(lines_for(gen, item, z, c))
                    meta.append((item, z, c))
        impl = r.impl(mode, lines)
        base = {}
        for (item, z, c), il in zip(meta, impl):
            if z == 0:
                base[(item, c)] = il
        for (item, z, c), il, line in zip(meta, impl, lines):
            p = parse_pattern(il)
            n = len(p[1]) if not isinstance(p, str) else -1
            r.case((gen, z, float(c), min(n, 8)), {"line": line, "impl": il[:160]})
            p0 = parse_pattern(base[(item, c)])
            if isinstance(p, str) or isinstance(p0, str):
                corr_ok = False
                r.violation("charge", {"generator": gen, "outcome": il.split(" ")[0], "z0": z == 0},
                            f"{gen} {item} z={z}: {il[:60]} (charge 0: {base[(item, c)][:40]})",
                            observed={"line": line, "mode": mode})
                continue
            problems = []
            if len(p[1]) != len(p0[1]):
                problems.append(f"{len(p[1])} peaks at charge {z}, {len(p0[1])} at charge 0")
            else:
                for k, (a, b) in enumerate(zip(p[1], p0[1])):
                    if a[1] != b[1]:
                        problems.append(f"peak {k}: intensity differs from the neutral pattern")
                        break
                    exp = b[0] if z == 0 else (b[0] + z * c) / abs(z)
                    # (where carrier and mass cancel, the error of the sum is relative to the summands, not to the result)
                    slack = 0 if z == 0 else float((abs(b[0]) + abs(z * c)) / abs(z)) * 1e-12
                    if not close(a[0], exp, rel=1e-9, abs_=slack):
                        problems.append(f"peak {k}: m/z {float(a[0])}, expected {float(exp)}")
                        break
            if gen == "poisson" and z == 0 and p[1]:
                for k, a in enumerate(p[1]):
                    if not close(a[0], item[0] + k * Fraction(10033548378, 10 ** 10), rel=1e-9, abs_=1e-9):
                        problems.append(f"charge 0: peak {k} m/z {float(a[0])} is not the neutral mass")
                        break
            if problems:
                corr_ok = False
                r.violation("charge", {"generator": gen, "problem": problems[0].split(":")[0][:20]},
                            f"{gen} {item} z={z} carrier={float(c)}: " + "; ".join(problems),
                            observed={"line": line, "mode": mode, "neutral": base[(item, c)][:300], "impl": il[:300]})
    # "charge 0 returns the neutral masses themselves": the carrier plays no part there, whatever it is — a placeholder such as
    # NaN or an infinity included (compared with the same call under carrier 0; the two composition generators take a carrier)
    for gen, items in (("conv", [(f, Fraction(0)) for f in small[:4]] + [("C:13=1,O:18=1", Fraction(0))]),
                       ("brain", [(f, n) for f in FORMULAS[:4] for n in (0, 5)] + [("Na1", 0), ("H:2=4,C:0=2", 3)])):
        nl = []
        for item in items:
            base_line = lines_for(gen, item, 0, Fraction(0))
            parts = base_line.split("\t")
            ci = 3 if gen == "conv" else 4
            for cs in ("0/1", "nan/1", "inf/1", "-inf/1", "17976931348623157/1" + "0" * 0):
                q = list(parts)
                q[ci] = cs
                nl.append("\t".join(q))
        outs = r.impl(gen, nl)
        for k in range(0, len(nl), 5):
            for j in range(1, 5):
                r.case((gen, "neutral-any-carrier", outs[k + j].split(" ")[0]), {"line": nl[k + j], "impl": outs[k + j][:120]})
                if outs[k + j] != outs[k]:
                    corr_ok = False
                    r.violation("charge", {"generator": gen, "problem": "charge 0 depends on the carrier"},
                                f"{gen} at charge 0 with carrier {nl[k + j].split(chr(9))[ci]}: {outs[k + j][:80]} — with carrier 0: {outs[k][:80]}",
                                observed={"line": nl[k + j], "mode": gen, "neutral": outs[k][:300], "impl": outs[k + j][:300]})
    r.oblige("correspondence: every generator's pattern at charge z is the neutral pattern rescaled", "corr", corr_ok)
    return r.finish(RULE)


def replay(r: Run, path):
    rec = json.loads(open(path).read())
    line, mode = rec["observed"]["line"], rec["observed"].get("mode", "poisson")
    r.build_harness()
    print("case :", line)
    print("impl :", r.impl(mode, [line])[0][:600])
    return 0
