"""C11 — fine-structure convolution enumerates the exact isotopologue distribution."""
import json
import random
from fractions import Fraction

from .common import Run, Broken, close, WORK
from .peaks import fr, parse_pattern

RULE = ("compositions over the table's elements whose full expansion has at most ~1e5 arrangements, counts over "
        "{0,1,2,3,4,5,7,8,9,15,16,17,31,32,33} so that every branch of the repeated-squaring power is taken, 1-4 "
        "elements, list and map representations, thresholds {0, 1e-12, 1e-9, 1e-6, 1e-3, 1e-2, 0.3, 0.6}; the real "
        "peak list is compared, as a sorted multiset, with the model's (same threshold) and with the exact "
        "arrangement enumeration (threshold 0: equality; threshold t: every arrangement of probability >= t present, "
        "correct ratios, nothing below t); class = (number of elements, count pattern, threshold, number of peaks bucket)")
MODULES = ["Props.C11", "Props.C11T", "Inst.C11", "Props.C11Occ"]
COUNTS = [0, 1, 2, 3, 4, 5, 7, 8, 9, 15, 16, 17, 31, 32, 33]
THRESH = [Fraction(0), Fraction(1, 10 ** 12), Fraction(1, 10 ** 9), Fraction(1, 10 ** 6), Fraction(1, 10 ** 3),
          Fraction(1, 100), Fraction(3, 10), Fraction(6, 10)]
LIMIT = 100000
QUICK_LIMIT = 6000


def niso():
    rows = [json.loads(l) for l in (WORK / "dump.jsonl").read_text().splitlines() if l.strip()]
    return {x["symbol"]: len(x["isotopes"]) for x in rows if x["table"] == "global"}


def max_abundance():
    rows = [json.loads(l) for l in (WORK / "dump.jsonl").read_text().splitlines() if l.strip()]
    return {x["symbol"]: max(float(Fraction(i["abundance"])) for i in x["isotopes"]) for x in rows if x["table"] == "global"}


def iso_table():
    rows = [json.loads(l) for l in (WORK / "dump.jsonl").read_text().splitlines() if l.strip()]
    return {x["symbol"]: [(Fraction(i["mass"]), Fraction(i["abundance"])) for i in x["isotopes"]] for x in rows if x["table"] == "global"}


def pruned_oracle(ents, t, isos):
    """the arrangements of probability >= t, merged by how many atoms take which isotope: [(mass, probability * multiplicity)],
    and the smallest relative distance of any visited arrangement's probability to t.  Independent of the code's route
    (repeated squaring with intermediate pruning): a depth-first walk over the number of atoms on each minor isotope, cut as
    soon as the running probability is below t (every further factor is at most 1)."""
    from math import comb
    margin = [Fraction(10)]

    def element(sym, n):
        iso = sorted(isos[sym], key=lambda q: -q[1])
        major, minors = iso[0], iso[1:]
        out = []

        def walk(j, left, mass, prob, mult):
            if j == len(minors):
                pr = prob * major[1] ** left
                out.append((mass + left * major[0], pr, mult))
                return
            for k in range(0, left + 1):
                pk = prob * minors[j][1] ** k
                if pk < t * Fraction(999, 1000):
                    break
                walk(j + 1, left - k, mass + k * minors[j][0], pk, mult * comb(left, k))
        walk(0, n, Fraction(0), Fraction(1), 1)
        return out
    acc = [(Fraction(0), Fraction(1), 1)]
    for sym, n in ents:
        part = element(sym, n)
        nxt = []
        for m1, p1, k1 in acc:
            for m2, p2, k2 in part:
                p = p1 * p2
                if p >= t * Fraction(999, 1000):
                    nxt.append((m1 + m2, p, k1 * k2))
        acc = nxt
        if len(acc) > 20000:
            return None, None
    for _, p, _ in acc:
        if t > 0:
            margin[0] = min(margin[0], abs(p / t - 1))
    keep = [(m, p * k) for m, p, k in acc if p >= t]
    return keep, margin[0]


def parse_dist(s):
    if s == "-":
        return []
    return [tuple(Fraction(x) for x in pq.split(":")) for pq in s.split(",")]


# threshold EXACTLY on the probability of an arrangement, decided exactly in f64 too: one two-isotope element next to
# monoisotopic ones (every other factor is exactly 1.0) and t = the table's own decimal for the rarer isotope.
# "probability at least t" keeps that arrangement.
EXACT_TIES = [("F:0=1,Br:0=1", Fraction(4931, 10000)), ("Br:0=1,F:0=2", Fraction(4931, 10000)),
              ("Na:0=1,Cl:0=1", Fraction(2424, 10000)), ("P:0=1,B:0=1,F:0=1", Fraction(199, 1000)),
              ("Cu:0=1,I:0=1", Fraction(3085, 10000)), ("F:0=1,Li:0=1", Fraction(759, 10000))]


def gen_cases(r: Run):
    rng = random.Random(r.seed)
    ni = niso()
    syms = sorted(ni)
    multi = [s for s in syms if ni[s] > 1]
    cases = []
    corpus = [("Br:0=2", Fraction(3, 10)), ("-", Fraction(0)), ("-", Fraction(1, 100)), ("C:0=0", Fraction(0)),
              ("H:0=2,O:0=1", Fraction(0)), ("Cl:0=2,C:0=1", Fraction(1, 10 ** 6)), ("S:0=8", Fraction(1, 10 ** 9)),
              ("Fe:0=2,O:0=3", Fraction(0)), ("Sn:0=2", Fraction(0)), ("C:0=9", Fraction(1, 10 ** 9)),
              ("C:0=8,H:0=1", Fraction(1, 10 ** 6)),
              # threshold 0 on compositions whose heaviest isotopologues are far below one ulp of the total
              ("H:0=5", Fraction(0)), ("H:0=8", Fraction(0)), ("C:0=8", Fraction(0)), ("N:0=8", Fraction(0)),
              ("C:0=2,H:0=6,O:0=1", Fraction(0)), ("H:0=9,N:0=1", Fraction(0)), ("Br:0=1", Fraction(6, 10)), ("Ac:0=3", Fraction(0))]
    # an entry with count 0 in every position of three- and four-entry compositions (an explicit zero is neutral wherever
    # it stands; scratch buffers carried from one entry to the next must not leak into it)
    corpus += [("C:0=2,H:0=3,O:0=0", Fraction(0)), ("C:0=2,O:0=0,H:0=3", Fraction(0)), ("O:0=0,C:0=2,H:0=3", Fraction(0)),
               ("C:0=1,H:0=2,N:0=1,S:0=0", Fraction(0)), ("C:0=1,H:0=2,S:0=0,N:0=1", Fraction(1, 10 ** 6)),
               ("Cl:0=2,Br:0=1,S:0=0", Fraction(1, 100)), ("Cl:0=2,S:0=0,Br:0=1,O:0=0", Fraction(0))]
    for pairs, t in corpus:
        for form in ("vec", "map"):
            cases.append((pairs, t, form))
    for pairs, t in EXACT_TIES:
        cases.append((pairs, t, "vec"))
    # a call that FAILS (2^30 atoms: the repeated-squaring counter overflows, outside every property's domain) followed,
    # in the same process and on the same thread, by ordinary calls: nothing may survive the failed call
    for follow in (("H:0=2,O:0=1", Fraction(0)), ("-", Fraction(0)), ("C:0=3,O:0=4", Fraction(1, 1000))):
        cases.append(("F:0=1073741824", Fraction(0), "vec"))
        cases.append((follow[0], follow[1], "vec"))
    # an element whose every arrangement falls below the threshold (the running product becomes EMPTY), placed
    # before / between / after other elements: the result must stay empty
    ma = max_abundance()
    want = 120 if r.tier == "thorough" else 24
    lim = LIMIT if r.tier == "thorough" else QUICK_LIMIT
    got = 0
    for _ in range(4000):
        if got >= want:
            break
        x = rng.choice(multi)
        t = rng.choice([Fraction(1, 100), Fraction(3, 10), Fraction(6, 10), Fraction(1, 1000)])
        k = 1
        while ma[x] ** k >= float(t) and k < 40:
            k += 1
        if ma[x] ** k >= float(t):
            continue
        others = rng.sample([s for s in syms if s != x], rng.choice([1, 1, 2]))
        ents = [(o, rng.choice([1, 2, 3])) for o in others]
        ents.insert(rng.randint(0, len(ents)), (x, k))
        size = 1
        for e, c in ents:
            size *= ni[e] ** c
        if size > lim:
            continue   # the oracle enumerates every arrangement
        got += 1
        cases.append((",".join(f"{e}:0={c}" for e, c in ents), t, "vec"))
    base = len(cases)
    n = 400 if r.tier == "thorough" else 70
    tries = 0
    while len(cases) < base + n and tries < 20000:
        tries += 1
        k = rng.choice([1, 1, 2, 2, 3, 4])
        els = rng.sample(multi if rng.random() < 0.8 else syms, k)
        cnts = [rng.choice(COUNTS) for _ in els]
        size = 1
        for e, c in zip(els, cnts):
            size *= ni[e] ** c
        t = rng.choice(THRESH)
        # with a threshold the pruned expansion stays small even when the full one is large
        if size > LIMIT and not (t >= Fraction(1, 10 ** 3) and size < 10 ** 30 and sum(cnts) <= 40):
            continue
        if size > (LIMIT if r.tier == 'thorough' else QUICK_LIMIT):
            # need the full enumeration for the oracle: only keep if the oracle is affordable
            continue
        pairs = ",".join(f"{e}:0={c}" for e, c in zip(els, cnts))
        cases.append((pairs, t, rng.choice(["vec", "map"])))
    return cases


def merge_by_mass(l, tol=Fraction(1, 10 ** 7)):
    """the property speaks of the peaks MERGED BY MASS: arrangements of equal mass (the same isotopes in another
    order, or masses that differ in the 12th digit) sort differently in f64 and in exact arithmetic"""
    out = []
    for m, i in sorted(l):
        if out and m - out[-1][0] <= tol:
            out[-1] = (out[-1][0], out[-1][1] + i)
        else:
            out.append((m, i))
    return out


def sorted_close(a, b, tol=1e-9):
    a, b = merge_by_mass(a), merge_by_mass(b)
    if len(a) != len(b):
        return False
    return all(close(x[0], y[0], rel=1e-12, abs_=1e-9) and close(x[1], y[1], rel=tol, abs_=1e-300) for x, y in zip(a, b))


def run(r: Run):
    ok, out = r.build_harness()
    if not ok:
        r.oblige("harness builds against /repo", "corr", False, out[-800:])
        return r.finish(RULE)
    r.regen()
    r.lake_build(["driver"])
    r.prove(MODULES)
    if r.tier == "thorough":
        r.leanchecker(MODULES)
    rng2 = random.Random(r.seed + 11)
    cases = gen_cases(r)
    lines = [f"conv\t{p}\t0\t0/1\t{fr(t)}\t{form}" for p, t, form in cases]
    # (one interpreter process for the whole stream: "the next call on the same thread" must be the next line)
    impl = r.run_lines(r.harness_bin(), "exec", lines, "harness", extra_args=("conv",), stall=120)
    # (the failing call is not given to the model: it is outside the domain, and 2^30 levels overflow the driver's stack)
    model = r.model("conv", [l if "F:0=1073741824" not in l else "conv\t-\t0\t0/1\t0/1\tvec" for l in lines], stall=300)
    corr_ok = True
    skipped = 0
    for (pairs, t, form), line, il, dl in zip(cases, lines, impl, model):
        parts = dl.split("\t")
        if len(parts) != 2:
            raise Broken(f"driver: {dl[:100]}")
        ms, ss = parts
        if pairs == "F:0=1073741824":
            r.case(("failing-call", il.split(" ")[0]), {"line": line, "impl": il[:60]})
            continue   # outside the domain (it only has to leave nothing behind for the next call)
        ip = parse_pattern(il)
        mp = parse_pattern(ms)
        cnts = tuple(sorted(int(kv.split("=")[1]) for kv in pairs.split(",") if "=" in kv))
        npk = len(ip[1]) if not isinstance(ip, str) else -1
        r.case((len(cnts), cnts, float(t), min(npk, 5) if npk < 5 else 5 + len(str(npk))), {"line": line, "impl": il[:160]})
        wit = {"t": str(t), "counts": list(cnts)[:3]}
        if isinstance(ip, str):
            corr_ok = False
            r.violation("total", dict(wit, outcome=il.split(" ")[0]), f"isotopic_convolution({pairs}, t={float(t)}): {il[:60]}",
                        expected=ms[:200], observed={"lines": [line]})
            continue
        peaks = sorted(ip[1])
        problems = []
        # sorted by m/z as returned
        if any(a[0] > b[0] for a, b in zip(ip[1], ip[1][1:])):
            problems.append(("sorted", "peaks are not sorted by m/z"))
        if peaks and not close(sum(p[1] for p in peaks), Fraction(1), rel=1e-9):
            problems.append(("sum", f"intensities sum to {float(sum(p[1] for p in peaks))}"))
        arr = parse_dist(ss) if ss != "unspecified" else None
        if arr is not None:
            tot = sum(a[1] for a in arr)
            if t == 0:
                want = sorted((a[0], a[1] / tot) for a in arr) if arr else []
                if not sorted_close(peaks, want):
                    problems.append(("exact", f"{len(peaks)} peaks, the composition has {len(want)} arrangements (or masses/intensities differ)"))
            else:
                tie = (pairs, t) in EXACT_TIES
                must = [a for a in arr if a[1] >= (t if tie else t * (1 + Fraction(1, 10 ** 9)))]
                may = [a for a in arr if a[1] >= (t if tie else t * (1 - Fraction(1, 10 ** 9)))]
                if len(must) != len(may):
                    skipped += 1
                else:
                    stot = sum(a[1] for a in must)
                    want = sorted((a[0], a[1] / stot) for a in must)
                    if not sorted_close(peaks, want):
                        problems.append(("pruned", f"{len(peaks)} peaks returned; {len(must)} arrangements have probability >= {float(t)} "
                                                   f"(or masses / ratios differ)"))
                    if any(p[1] < t * (1 - Fraction(1, 10 ** 9)) for p in peaks):
                        problems.append(("floor", "a returned peak has normalised intensity below the threshold"))
        for clause, detail in problems:
            corr_ok = False
            r.violation(clause, wit, f"isotopic_convolution({pairs}, t={float(t)}, {form}): {detail}", expected=ss[:300],
                        observed={"lines": [line], "impl": il[:300]}, model=ms[:300])
        if not problems and not isinstance(mp, str):
            if not sorted_close(peaks, sorted(mp[1])):
                corr_ok = False
                r.violation("corr", wit, f"isotopic_convolution({pairs}, t={float(t)}): impl and model peak lists differ "
                            f"({len(peaks)} vs {len(mp[1])} peaks)", expected=ms[:300], observed={"lines": [line], "impl": il[:300]},
                            kind="corr_broken")
    # "sorted by m/z" is a statement about what is returned, at whatever charge: light compositions whose m/z go negative
    # (|z| * carrier above the mass, or a negative carrier), mixed signs, and ordinary ions — order, count and sum
    light = ["He:0=1", "H:0=1", "H:0=2", "C:0=1", "C:0=2,H:0=6", "O:0=1,H:0=2", "Li:0=2", "B:0=1,H:0=3", "Cl:0=1,H:0=1", "S:0=1"]
    sample = light + [p for p, t, form in cases[:: max(1, len(cases) // 40)] if p not in ("-", "F:0=1073741824")][:40]
    combos = [(-3, Fraction(1007276, 10 ** 6)), (-2, Fraction(1007276, 10 ** 6)), (-1, Fraction(25, 2)), (1, Fraction(-31)),
              (-8, Fraction(22989218, 10 ** 6)), (2, Fraction(1007276, 10 ** 6)), (-1, Fraction(1007276, 10 ** 6)), (3, Fraction(-1007276, 10 ** 6))]
    clines, cmeta = [], []
    for p in sample:
        for z, c in combos:
            for form in ("vec", "map"):
                clines.append(f"conv\t{p}\t0\t0/1\t0/1\t{form}")
                clines.append(f"conv\t{p}\t{z}\t{fr(c)}\t0/1\t{form}")
                cmeta.append((p, z, c, form))
    couts = r.impl("conv", clines)
    for k, (p, z, c, form) in enumerate(cmeta):
        n0, nz = parse_pattern(couts[2 * k]), parse_pattern(couts[2 * k + 1])
        r.case(("charged", z, float(c) > 0, isinstance(nz, str)), {"line": clines[2 * k + 1], "impl": couts[2 * k + 1][:160]})
        wit = {"charged": True, "z": z}
        if isinstance(nz, str) or isinstance(n0, str):
            corr_ok = False
            r.violation("total", dict(wit, outcome=couts[2 * k + 1].split(" ")[0]), f"isotopic_convolution({p}, z={z}, carrier={float(c)}): {couts[2 * k + 1][:60]}",
                        observed={"lines": [clines[2 * k + 1]]})
            continue
        probs = []
        if any(a[0] > b[0] for a, b in zip(nz[1], nz[1][1:])):
            probs.append(("sorted", "peaks are not sorted by m/z: " + ", ".join(f"{float(a[0]):.6f}" for a in nz[1][:6])))
        if len(nz[1]) != len(n0[1]):
            probs.append(("exact", f"{len(nz[1])} peaks at charge {z}, {len(n0[1])} neutral"))
        if nz[1] and not close(sum(q[1] for q in nz[1]), Fraction(1), rel=1e-9):
            probs.append(("sum", f"intensities sum to {float(sum(q[1] for q in nz[1]))}"))
        for clause, detail in probs:
            corr_ok = False
            r.violation(clause, wit, f"isotopic_convolution({p}, z={z}, carrier={float(c)}, {form}): {detail}",
                        observed={"lines": [clines[2 * k + 1]], "impl": couts[2 * k + 1][:300]})
    # counts 15 … 33 on elements with several isotopes (the repeated-squaring power with intermediate pruning takes all of its
    # branches): the full expansion has up to 10^30 arrangements, the pruned one a few hundred — compared with the model (same
    # route) and with an independent pruned enumeration (depth-first over isotope occupancies)
    isos = iso_table()
    multi2 = sorted(sy for sy, l in isos.items() if len(l) >= 2)
    big, tries = [], 0
    want_big = 160 if r.tier == "thorough" else 40
    while len(big) < want_big and tries < 5000:
        tries += 1
        els = rng2.sample(multi2, rng2.choice([1, 1, 2, 3]))
        ents = [(e, rng2.choice([15, 16, 17, 31, 32, 33, 9, 24])) for e in els]
        t = rng2.choice([Fraction(1, 1000), Fraction(1, 100), Fraction(1, 20), Fraction(3, 10)])
        keep, margin = pruned_oracle(ents, t, isos)
        if keep is None or not keep or margin < Fraction(1, 10 ** 6) or len(keep) > 3000:
            continue
        big.append((ents, t, keep))
    blines = [f"conv\t{','.join(f'{e}:0={n}' for e, n in ents)}\t0\t0/1\t{fr(t)}\t{'vec' if k % 2 else 'map'}" for k, (ents, t, _) in enumerate(big)]
    bimpl = r.impl("conv", blines)
    bmodel = r.model("convm", blines, stall=600)
    for (ents, t, keep), line, il, ml in zip(big, blines, bimpl, bmodel):
        ip = parse_pattern(il)
        r.case(("pruned-big", len(ents), float(t), isinstance(ip, str)), {"line": line, "impl": il[:160]})
        wit = {"t": str(t), "counts": sorted(n for _, n in ents)[:3], "pruned": True}
        if isinstance(ip, str):
            corr_ok = False
            r.violation("total", dict(wit, outcome=il.split(" ")[0]), f"isotopic_convolution({line.split(chr(9))[1]}, t={float(t)}): {il[:60]}", observed={"lines": [line]})
            continue
        tot = sum(p for _, p in keep)
        want = [(m, p / tot) for m, p in keep]
        if not sorted_close(sorted(ip[1]), sorted(want)):
            corr_ok = False
            r.violation("pruned", wit, f"isotopic_convolution({line.split(chr(9))[1]}, t={float(t)}): {len(merge_by_mass(sorted(ip[1])))} merged peaks returned; "
                        f"{len(merge_by_mass(sorted(want)))} isotopologues have an arrangement probability >= t (or masses / ratios differ)",
                        observed={"lines": [line], "impl": il[:300]})
            continue
        mp = parse_pattern(ml.split("\t")[0])
        if not isinstance(mp, str) and not sorted_close(sorted(ip[1]), sorted(mp[1])):
            corr_ok = False
            r.violation("corr", wit, f"isotopic_convolution({line.split(chr(9))[1]}, t={float(t)}): impl and model peak lists differ",
                        expected=ml[:300], observed={"lines": [line], "impl": il[:300]}, kind="corr_broken")
    r.coverage["pruned_big_cases"] = len(big)
    r.coverage["charged_calls"] = len(cmeta)
    r.coverage["boundary_skipped"] = skipped
    r.oblige("correspondence: isotopic_convolution agrees with the model and the exact arrangement enumeration", "corr", corr_ok)
    r.assumptions.append("f64 rounding not modelled: masses compared to 1e-9 Da, intensities to 1e-9 relative; arrangements within 1e-9 of the threshold skipped")
    return r.finish(RULE)


def replay(r: Run, path):
    rec = json.loads(open(path).read())
    r.build_harness()
    for line in rec["observed"]["lines"]:
        print("case :", line)
        print("impl :", r.impl("conv", [line])[0][:800])
        print("model:", r.model("conv", [line])[0][:800])
    return 0
