"""C12 — the periodic table is self-consistent and matches the repository's NIST data."""
import json
from .common import WORK, Run

RULE = ("exhaustive: every element of the compiled table (both construction paths) and every isotope; "
        "a case is one element; its class is (number of isotopes, has lighter isotopes, has gaps, "
        "set of failing clauses)")


def run(r: Run):
    ok, out = r.build_harness()
    if not ok:
        r.oblige("harness builds against /repo", "corr", False, out[-500:])
        return r.finish(RULE)
    r.regen()
    r.lake_build(["driver"])
    ok, failing, out = r.prove(["Props.C12", "Inst.C12"])
    return decide(r)


def decide(r: Run):
    model = r.model_dump("c12")  # no input: the driver prints one line per element of Gen.table
    rows = [json.loads(l) for l in (WORK / "dump.jsonl").read_text().splitlines() if l.strip()]
    glob = {x["key"]: x for x in rows if x["table"] == "global"}
    helper = {x["key"]: x for x in rows if x["table"] == "helper"}
    scale = 10 ** r.notes["translator"]["scale_decimals"]
    corr_ok = True
    seen = set()
    for line in model:
        f = line.split("\t")
        if f[0] == "c12-global":
            if f[2] != "true":
                diff = sorted(k for k in set(glob) | set(helper) if glob.get(k) != {**helper.get(k, {}), "table": "global"})
                r.violation("tables_identical", {"elements": diff[:5]},
                            "PERIODIC_TABLE and ChemicalElements::new().periodic_table differ",
                            expected="identical", observed=diff[:20])
            if f[4] != "true":
                r.violation("own_symbol", {"table": "duplicate keys"}, "duplicate table keys")
            continue
        if f[0] == "c12-missing":
            r.violation("from_nist", {"element": f[1]}, f"{f[1]} is in data/nist_mass.json but not in the table")
            continue
        if f[0] != "c12":
            continue
        sym, fails, mass, cmin, cmax, byshift, asum = f[1:8]
        seen.add(sym)
        g = glob[sym]
        shifts = sorted(i["shift"] for i in g["isotopes"])
        gaps = any(b - a > 1 for a, b in zip(shifts, shifts[1:]))
        r.case((len(shifts), shifts[0] < 0 if shifts else None, gaps, fails),
               {"element": sym, "isotopes": g["isotopes"], "failing_clauses": fails})
        for clause in [c for c in fails.split(",") if c]:
            r.violation(clause, {"element": sym},
                        f"{sym}: clause {clause} fails (sum of abundances = {int(asum) / scale})",
                        expected=f"{clause} holds", observed=g)
        # correspondence: the public accessors on the real table vs the model's functions
        api = g["api"]
        from decimal import Decimal
        obs_mass = None if api["mass"] is None else int(Decimal(api["mass"]) * scale)
        exp_mass = None if mass == "null" else int(mass)
        obs = (obs_mass, api["calc_min"], api["calc_max"], json.dumps(api["by_shift"]).replace(" ", ""), api["get_ok"])
        exp = (exp_mass, int(cmin), int(cmax), byshift, True)
        if obs != exp:
            corr_ok = False
            r.violation("accessors", {"element": sym}, f"{sym}: Element accessors disagree with the model",
                        expected=exp, observed=obs, kind="corr_broken")
    if seen != set(glob):
        corr_ok = False
    r.oblige("correspondence: Element::mass / calc_min / calc_max / isotope_by_shift / PeriodicTable::get "
             "agree with the model on every element", "corr", corr_ok)
    return r.finish(RULE, exhaustive=True,
                    extra={"elements": len(glob), "isotopes": sum(len(g["isotopes"]) for g in glob.values())})


def replay(r: Run, path):
    rec = json.loads(open(path).read())
    print(json.dumps(rec, indent=1))
    # C12 replays name an element and clause; re-running the check re-evaluates it on the current tree
    return run(r)
