"""C14 — pattern operations against the exact-rational model (Model/Peaks.lean) and spec (Spec/PeaksSpec.lean)."""
import json
from .common import Run
from . import peaks

RULE = ("peak lists of length 1..64 with positive dyadic intensities (multiples of 2^-20: every f64 partial sum is "
        "exact, so thresholds sitting exactly on cumulative sums are decided identically), normalised or not, plus "
        "real Poisson patterns whose f64 total is a few ulp off 1; thresholds below the first peak, between and "
        "exactly on cumulative sums, at and above the total, zero, negative; class of a case = (operation, source, "
        "input length, output length / outcome); comparisons whose exact margin is below 1e-9 on inexact inputs "
        "are counted as boundary_skipped")
MODULES = ["Props.C14", "Props.C13Range", "Props.C14Float"]


def run(r: Run):
    ok, out = r.build_harness()
    if not ok:
        r.oblige("harness builds against /repo", "corr", False, out[-800:])
        return r.finish(RULE)
    r.regen()
    r.lake_build(["driver"])
    r.prove(MODULES)
    if r.tier == "thorough":
        r.leanchecker(MODULES)
    peaks.run_all(r, "C14")
    r.assumptions.append("f64 rounding is not modelled: results are compared with the exact rational values at 1e-11 relative")
    return r.finish(RULE)


def replay(r: Run, path):
    rec = json.loads(open(path).read())
    line = rec["observed"]["line"]
    r.build_harness()
    il = r.impl("peaks", [line])[0]
    dl = r.model("peaks", [line])[0]
    print("case :", line[:400])
    print("impl :", il[:400])
    m = dl.split("\t")
    print("model:", m[0][:400])
    print("spec :", (m[1] if len(m) > 1 else "")[:400])
    # re-judge the single case
    f = line.split("\t")
    from fractions import Fraction
    if f[0] == "peakseq":
        c = dict(op="eq")
    else:
        c = dict(op=f[1], exact=True)
    status, detail = peaks.compare(c, il, dl)
    print("verdict:", status, detail[:200])
    return 0 if status in ("ok", "skipped") else 1
