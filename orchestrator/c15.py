"""C15 — the Poisson approximation is a normalised Poisson profile on a neutron ladder."""
import json
import random
from fractions import Fraction

from .common import Run, Broken, close
from .peaks import fr, parse_pattern, MARGIN

RULE = ("masses {0, 1e-3, 1, 750, 1800, 5000, 1e5} + random in [0,1e5] x peak counts 0..150 x charges +-1..+-8 "
        "against the exact model (ratio law, sum, m/z ladder); masses up to 1e9 x counts up to 300 (length, sum, "
        "spacing, range only); thresholds on a grid in [0,1] plus neighbours of switching points (minimality vs the "
        "model, monotonicity on the implementation itself); class = (regime, n bucket, charge sign, outcome)")
MODULES = ["Props.C15", "Props.C15Float", "Inst.Consts", "Props.C15Range", "Props.C15RangeN"]
NS = Fraction(10033548378, 10 ** 10)


def run(r: Run):
    ok, out = r.build_harness()
    if not ok:
        r.oblige("harness builds against /repo", "corr", False, out[-800:])
        return r.finish(RULE)
    r.regen()
    r.lake_build(["driver"])
    r.prove(MODULES)
    if r.tier == "thorough":
        r.leanchecker(MODULES)
    rng = random.Random(r.seed)
    thorough = r.tier == "thorough"
    masses = [Fraction(0), Fraction(1, 1024), Fraction(1), Fraction(750), Fraction(1800), Fraction(5000), Fraction(100000)]
    masses += [Fraction(rng.randint(0, 100000 * 64), 64) for _ in range(60 if thorough else 12)]
    ns = [0, 1, 2, 3, 5, 8, 13, 40, 100, 150] if not thorough else list(range(0, 151, 3)) + [150]
    cases = []
    for m in masses:
        for n in ns:
            z = rng.choice([1, 2, 3, 4, 5, 6, 7, 8]) * rng.choice([1, -1])
            cases.append(("exact", m, n, z))
    for m in [Fraction(10 ** 6), Fraction(10 ** 7), Fraction(10 ** 9), Fraction(123456789)]:
        for n in [1, 50, 150, 300]:
            cases.append(("big", m, n, rng.choice([1, -2, 3])))
    # the extended domain (length, sum, spacing only): a dense sweep — the largest finite terms of a long ladder on a
    # megadalton mass sit just below f64::MAX, and whether their SUM stays finite depends on the mass
    nbig = 0
    for k in range(1200 if thorough else 240):
        m = Fraction(int(10 ** (6 + 3 * k / (1200 if thorough else 240))))
        cases.append(("big", m, rng.choice([150, 200, 250, 300]), rng.choice([1, -1, 2, -3])))
        nbig += 1
    for k in range(0, 300, 1 if thorough else 3):
        cases.append(("big", Fraction(2_000_000 + 10_000 * k), 300, rng.choice([1, -2])))
        nbig += 1
    # overflow edges: masses at which (mass/1800)^k just does / just does not overflow, for every k a ladder can reach, with
    # ladders that end on, one past and well past that term — and around 171 terms, where the factorial overflows as well
    # (power and factorial may leave the range of f64 at the same step: inf / inf)
    import sys as _sys
    for k in sorted(set(range(100, 301, 1 if thorough else 3)) | set(range(160, 185))):
        lam_k = _sys.float_info.max ** (1.0 / k)
        for delta in (-1e-3, 1e-9, 1e-3, 1e-2):
            m = Fraction(1800.0 * lam_k * (1 + delta))
            for n in sorted(set([min(300, k + 1), min(300, k + 2), 172, 300])):
                cases.append(("big", m, n, rng.choice([1, -1, 2, -3])))
                nbig += 1
    from . import common as _c
    for d in _c.dict_ints(1, 400):
        for m in (Fraction(750), Fraction(123456), Fraction(d)):
            cases.append(("exact" if d <= 150 and m <= 100000 else "big", m, d, rng.choice([1, -2])))
    for f in _c.DICT_FLOATS:
        if 0 < f < 1e9:
            cases.append(("exact" if f <= 100000 else "big", Fraction(f), 12, 1))
    lines = [f"poisson\t{fr(m)}\t{n}\t{z}" for _, m, n, z in cases]
    impl = r.impl("poisson", lines)
    # the exact model is consulted in the "exact" regime only
    mlines = [l for (regime, *_), l in zip(cases, lines) if regime == "exact"]
    mout = iter(r.model("poisson", mlines))
    model = [next(mout) if regime == "exact" else "-" for regime, *_ in cases]
    # the extended domain against the model WITH the `is_finite` branch (Model/PoissonRange.lean): which terms of a long
    # ladder are pushed as 0.0 because a loop variable has left the range of a double, and what the others normalise to
    bigidx = [k for k, (regime, m, n, z) in enumerate(cases) if regime == "big" and n >= 1][:: (2 if thorough else 18)]
    rlines = [f"poissonr\t{fr(cases[k][1])}\t{cases[k][2]}\t{cases[k][3]}" for k in bigidx]
    rout = dict(zip(bigidx, r.model("poisson", rlines, stall=600)))
    range_checked = range_skipped = 0
    corr_ok = True
    for k in bigidx:
        regime, m, n, z = cases[k]
        ml_r = rout[k]
        parts = ml_r.split("\t")
        if len(parts) != 2:
            raise Broken(f"driver poissonr: {ml_r[:100]}")
        margin = None if parts[1] == "inf" else Fraction(parts[1])
        a, b = parse_pattern(impl[k]), parse_pattern(parts[0])
        if margin is not None and margin < Fraction(1, 10 ** 6):
            range_skipped += 1
            continue
        range_checked += 1
        bad = None
        if isinstance(a, str) or isinstance(b, str) or len(a[1]) != len(b[1]):
            bad = f"impl {impl[k][:60]} model {parts[0][:60]}"
        else:
            for j, (x, y) in enumerate(zip(a[1], b[1])):
                if (x[1] == 0) != (y[1] == 0) and max(x[1], y[1]) > Fraction(1, 10 ** 290):
                    bad = f"peak {j}: impl intensity {float(x[1]):.3e}, with the loop variables in / out of range the model pushes {float(y[1]):.3e}"
                    break
                if not close(x[1], y[1], rel=1e-9, abs_=1e-290):
                    bad = f"peak {j}: impl intensity {float(x[1]):.6e}, model {float(y[1]):.6e}"
                    break
        if bad:
            corr_ok = False
            r.violation("poisson-range", {"regime": "big", "problem": bad.split(":")[0][:12]},
                        f"poisson_approximation({float(m)}, {n}, {z}): {bad}", expected=parts[0][:300],
                        observed={"line": f"poisson\t{fr(m)}\t{n}\t{z}", "impl": impl[k][:300]})
    r.coverage["range_model"] = dict(compared=range_checked, boundary_skipped=range_skipped)
    for (regime, m, n, z), il, ml in zip(cases, impl, model):
        i = parse_pattern(il)
        r.case((regime, min(n, 3) if n < 3 else (n // 50) + 3, z > 0, il.split(" ")[0]), {"line": f"poisson {float(m)} {n} {z}", "impl": il[:160]})
        if isinstance(i, str):
            corr_ok = False
            r.violation("poisson", {"regime": regime, "outcome": il.split(" ")[0]}, f"poisson_approximation({float(m)}, {n}, {z}) -> {il[:60]}",
                        expected="n finite peaks", observed={"line": f"poisson\t{fr(m)}\t{n}\t{z}"})
            continue
        peaks = i[1]
        problems = []
        if len(peaks) != n:
            problems.append(f"length {len(peaks)} != {n}")
        if n >= 1:
            tot = sum(p[1] for p in peaks)
            # Props/C15Float.lean, flDivNormalize_sum_f64: under the standard rounding model (u = 2^-53) the exact sum
            # of at most 300 computed intensities `term / total` is within 1e-13 of 1
            if abs(tot - 1) > (Fraction(1, 10 ** 13) if n <= 300 else Fraction(1, 10 ** 9)):
                problems.append(f"intensities sum to 1 {'+' if tot > 1 else '-'} {float(abs(tot - 1)):.3e}")
            if any(p[1] < 0 for p in peaks):
                problems.append("negative intensity")
            exp0 = (m + z * Fraction(1007276, 10 ** 6)) / abs(z)
            if not close(peaks[0][0], exp0, rel=1e-9):
                problems.append(f"first m/z {float(peaks[0][0])} != {float(exp0)}")
            for a, b in zip(peaks, peaks[1:]):
                # each m/z is (m + i*NS + z*c)/|z| in four roundings: the difference of two neighbours is the spacing up
                # to a few ulps of the m/z values themselves (not a fixed relative tolerance: 1e-6 would hide a change
                # of the constant in its 7th digit)
                tol = 16 * Fraction(1, 2 ** 53) * max(abs(a[0]), abs(b[0])) + Fraction(1, 10 ** 15)
                if abs((b[0] - a[0]) - NS / abs(z)) > tol:
                    problems.append(f"spacing {float(b[0] - a[0]):.12f} instead of {float(NS / abs(z)):.12f}")
                    break
        lam = float(m) / 1800.0
        representable = n == 0 or lam == 0 or (n * __import__("math").log10(max(lam, 1e-300)) < 290 and n < 171)
        if regime == "exact" and representable:
            mo = parse_pattern(ml)
            if isinstance(mo, str):
                raise Broken(f"driver: {ml[:100]}")
            if len(mo[1]) == len(peaks):
                for k, (a, b) in enumerate(zip(peaks, mo[1])):
                    if not close(a[1], b[1], rel=1e-9, abs_=1e-300) or not close(a[0], b[0], rel=1e-9):
                        problems.append(f"peak {k}: impl ({float(a[0])},{float(a[1])}) exact ({float(b[0])},{float(b[1])})")
                        break
                # ratio law on the implementation itself
                for k in range(1, len(peaks)):
                    if peaks[k - 1][1] > Fraction(1, 10 ** 280) and peaks[k][1] > Fraction(1, 10 ** 280):
                        if not close(peaks[k][1] / peaks[k - 1][1], (m / 1800) / k, rel=1e-9):
                            problems.append(f"ratio law at {k}")
                            break
        if problems:
            corr_ok = False
            r.violation("poisson", {"regime": regime, "problem": problems[0].split(" ")[0]},
                        f"poisson_approximation({float(m)}, {n}, {z}): " + "; ".join(problems[:3]),
                        expected=ml[:300], observed={"line": f"poisson\t{fr(m)}\t{n}\t{z}", "impl": il[:300]})
    # peak-count estimate: range, minimality (vs model), monotonicity (on the implementation)
    grid = [Fraction(k, 200) for k in range(0, 201, 1 if thorough else 2)]
    extra = [Fraction(9999, 10000), Fraction(999, 1000), Fraction(99999, 100000), Fraction(1)]
    skipped = 0
    ts = sorted(set(grid + extra))
    mlist = masses + [Fraction(10 ** 6), Fraction(10 ** 9)]
    # thresholds placed just BELOW the point where the n-th term stops qualifying: 1 - share_n * (1 + eps), the nearest double.
    # The loop's own error is a few roundings per step ((2n+8)u relative), so a gap of 2e-14 at n <= 3 and of 3e-9 anywhere is
    # decided the same way by every faithful implementation — a formulation that rounds `1 - share` onto the coarse grid
    # next to 1 (spacing 1.1e-16 ABSOLUTE) is not.
    base_ts = ts
    ts_by_mass = {}
    for m in mlist:
        tl = list(base_ts)
        if 0 < m <= 1000:
            lam = m / 1800
            term, acc = Fraction(1), Fraction(1)
            for n in range(1, 9):
                term = term * lam / n
                acc += term
                share = term / acc
                for eps in (Fraction(3, 10 ** 9), Fraction(1, 10 ** 11), Fraction(2, 10 ** 14)):
                    tf = float(1 - share * (1 + eps))
                    if 0 < tf < 1:
                        tl.append(Fraction(tf))
        ts_by_mass[m] = sorted(set(tl))
    lines = [f"poissonn\t{fr(m)}\t" + ",".join(fr(t) for t in ts_by_mass[m]) for m in mlist]
    impl_all = r.impl("poisson", lines)
    model_all = r.model("poisson", [l for l, m in zip(lines, mlist) if m <= 100000])
    model_by_mass = dict(zip([m for m in mlist if m <= 100000], model_all))
    # above 1e5 the count is decided by WHERE lambda^i leaves the range of a double (the early return) or by the factorial
    # doing so: the range-aware model (Model/PoissonRange.lean: poissonNR) says which
    big_m = [m for m in mlist if m > 100000]
    rmodel = dict(zip(big_m, r.model("poisson", ["poissonnr\t" + l.split("\t", 1)[1] for l, m in zip(lines, mlist) if m > 100000], stall=600)))
    range_n = dict(compared=0, boundary_skipped=0)
    for m, il_all in zip(mlist, impl_all):
        ts = ts_by_mass[m]
        ivals = il_all.split(" ")
        mvals = model_by_mass[m].split(" ") if m in model_by_mass else [None] * len(ts)
        if len(ivals) != len(ts) or len(mvals) != len(ts):
            raise Broken(f"poissonn protocol: {il_all[:80]}")
        prev = None
        for t, il, ml in zip(ts, ivals, mvals):
            r.case(("npeaks", il, m > 100000), {"line": f"poissonn {float(m)} {float(t)}", "impl": il})
            n = int(il) if il.isdigit() else None
            one = f"poissonn\t{fr(m)}\t{fr(t)}"
            if n is None or not (1 <= n <= 255):
                corr_ok = False
                r.violation("npeaks-range", {"value": il}, f"poisson_approximate_n_peaks_of({float(m)}, {float(t)}) = {il}",
                            observed={"line": one})
                continue
            if prev is not None and n < prev[1]:
                corr_ok = False
                r.violation("npeaks-monotone", {"kind": "decrease"},
                            f"n_peaks({float(m)}, {float(prev[0])}) = {prev[1]} > n_peaks({float(m)}, {float(t)}) = {n}",
                            observed={"line": one})
            prev = (t, n)
            if m in rmodel:
                rv = rmodel[m].split(" ")
                if len(rv) != len(ts):
                    raise Broken(f"poissonnr protocol: {rmodel[m][:80]}")
                rn, ratio_s, range_s = rv[ts.index(t)].split(":")
                ratio_m = None if ratio_s == "inf" else Fraction(ratio_s)
                range_m = None if range_s == "inf" else Fraction(range_s)
                if (ratio_m is not None and ratio_m < 4 * (2 * int(rn) + 8) * Fraction(1, 2 ** 53)) or \
                        (range_m is not None and range_m < Fraction(1, 10 ** 6)):
                    range_n["boundary_skipped"] += 1
                else:
                    range_n["compared"] += 1
                    if str(n) != rn:
                        corr_ok = False
                        r.violation("npeaks-range-model", {"kind": "differs"},
                                    f"n_peaks({float(m)}, {float(t)}) = {n}; with the loop variables leaving the range of a double where they "
                                    f"do, the search returns {rn}", expected=rn, observed={"line": one}, kind="corr_broken")
            if ml is not None:
                mn, margin_s, nspec = ml.split(":")
                margin = None if margin_s == "inf" else Fraction(margin_s)
                # what a faithful f64 loop can decide: (2n+8) roundings, with a factor 4 of slack
                safe = 4 * (2 * int(nspec) + 8) * Fraction(1, 2 ** 53)
                # an EXACT tie (the n-th share equals 1 - t in rational arithmetic) is decided exactly by the f64 loop too when
                # lambda is 1 (mass 1800: every term is a dyadic rational): "less than 1 - t" does not hold at the tie
                exact_tie = margin == 0 and m == 1800 and int(nspec) <= 3
                if margin is not None and margin < safe and not exact_tie:
                    skipped += 1
                elif str(n) != nspec:
                    corr_ok = False
                    r.violation("npeaks-minimal", {"kind": "differs"},
                                f"n_peaks({float(m)}, {float(t)}) = {n}, the smallest count at which the Poisson term (lambda = mass/1800) "
                                f"contributes less than 1-t is {nspec}", expected=nspec, observed={"line": one})
                elif str(n) != mn:
                    corr_ok = False
                    r.violation("corr-npeaks", {"kind": "differs"}, f"n_peaks({float(m)}, {float(t)}) = {n}, model {mn}",
                                expected=mn, observed={"line": one}, kind="corr_broken")
    # the `_impl` entry points the wrappers forward to, with OTHER parameters: lambda factors 900 / 2500 / 1 (the ratio law
    # is p[i]/p[i-1] = (mass/lf)/i), iteration caps 1 / 2 / 10 / 64 (the count never exceeds the cap and equals it when no
    # term qualifies earlier)
    ilines, imeta = [], []
    for lf in (Fraction(900), Fraction(2500), Fraction(1), Fraction(1800)):
        for m in (Fraction(0), Fraction(750), lf, lf * 5 / 2, Fraction(12000)):
            if m / lf > 60:
                continue
            for n in (1, 4, 25):
                z = rng.choice([1, -2, 3])
                ilines.append(f"poissoni\t{fr(m)}\t{n}\t{z}\t{fr(lf)}")
                imeta.append((m, n, z, lf))
    iimpl, imodel = r.impl("poisson", ilines), r.model("poisson", ilines)
    for (m, n, z, lf), line, il, ml in zip(imeta, ilines, iimpl, imodel):
        a, b = parse_pattern(il), parse_pattern(ml)
        r.case(("impl-entry", float(lf), n, isinstance(a, str)), {"line": line, "impl": il[:120]})
        bad = isinstance(a, str) or isinstance(b, str) or len(a[1]) != len(b[1]) or any(
            not close(x[1], y[1], rel=1e-9, abs_=1e-300) or not close(x[0], y[0], rel=1e-9) for x, y in zip(a[1], b[1]))
        if bad:
            corr_ok = False
            r.violation("poisson-impl", {"lambda_factor": str(lf)}, f"poisson_approximation_impl({float(m)}, {n}, {z}, {float(lf)}) differs from the "
                        f"normalised Poisson profile with lambda = mass / {float(lf)}", expected=ml[:300], observed={"line": line, "impl": il[:300]})
    nlines, nmeta = [], []
    tgrid = [Fraction(k, 20) for k in range(0, 21)] + [Fraction(999, 1000)]
    for lf in (Fraction(900), Fraction(1800), Fraction(2500)):
        for mi in (1, 2, 10, 64):
            for m in (Fraction(0), Fraction(750), Fraction(5000), Fraction(40000)):
                nlines.append(f"poissonni\t{fr(m)}\t{fr(lf)}\t{mi}\t" + ",".join(fr(t) for t in tgrid))
                nmeta.append((m, lf, mi))
    nimpl, nmodel = r.impl("poisson", nlines), r.model("poisson", nlines)
    for (m, lf, mi), line, il, ml in zip(nmeta, nlines, nimpl, nmodel):
        iv, mv = il.split(" "), ml.split(" ")
        if len(iv) != len(tgrid) or len(mv) != len(tgrid):
            raise Broken(f"poissonni protocol: {il[:80]} / {ml[:80]}")
        for t, x, y in zip(tgrid, iv, mv):
            r.case(("impl-npeaks", mi, x), {"line": f"poissonni {float(m)} {float(lf)} {mi} {float(t)}", "impl": x})
            mn, margin_s, _ = y.split(":")
            margin = None if margin_s == "inf" else Fraction(margin_s)
            one = f"poissonni\t{fr(m)}\t{fr(lf)}\t{mi}\t{fr(t)}"
            if not x.isdigit() or not (1 <= int(x) <= max(1, mi)):
                corr_ok = False
                r.violation("npeaks-range", {"value": x, "cap": mi}, f"poisson_approximate_n_peaks_of_impl({float(m)}, {float(lf)}, {float(t)}, {mi}) = {x}",
                            observed={"line": one})
            elif margin is not None and margin < 4 * (2 * int(mn) + 8) * Fraction(1, 2 ** 53):
                skipped += 1
            elif x != mn:
                corr_ok = False
                r.violation("npeaks-minimal", {"kind": "impl-entry"}, f"poisson_approximate_n_peaks_of_impl({float(m)}, {float(lf)}, {float(t)}, {mi}) = {x}, "
                            f"the smallest qualifying count under that cap is {mn}", expected=mn, observed={"line": one})
    # mass = -0.0 (what `0.0 * -2.0` or `-(a - a)` leaves): it satisfies `mass >= 0`, and every result must be the one for +0.0
    zlines = [f"poisson\t{m0}\t{n}\t{z}" for n in (1, 3, 8) for z in (1, -2, 8) for m0 in ("0/1", "-0/1")]
    zlines += [f"poissonn\t{m0}\t0/1,1/2,19/20,1/1" for m0 in ("0/1", "-0/1")]
    zout = r.impl("poisson", zlines)
    for k in range(0, len(zlines), 2):
        r.case(("negative-zero", zout[k + 1].split(" ")[0]), {"line": zlines[k + 1], "impl": zout[k + 1][:120]})
        if zout[k] != zout[k + 1] or zout[k].startswith(("panic", "nonfinite", "bad")):
            corr_ok = False
            r.violation("negative-zero", {"mass": "-0.0"}, f"{zlines[k + 1].replace(chr(9), ' ')} gives {zout[k + 1][:80]}, the same call with +0.0 gives {zout[k][:80]}",
                        expected=zout[k][:300], observed={"line": zlines[k + 1], "impl": zout[k + 1][:300]})
    r.coverage["range_model_counts"] = range_n
    r.coverage["impl_entry_points"] = dict(profiles=len(ilines), counts=len(nlines) * len(tgrid))
    r.coverage["boundary_skipped"] = skipped
    r.oblige("correspondence: poisson_approximation / poisson_approximate_n_peaks_of agree with the exact model", "corr", corr_ok)
    r.assumptions.append("f64 rounding and overflow are not modelled: the ratio law and minimality are compared where (mass/1800)^n is representable")
    return r.finish(RULE)


def replay(r: Run, path):
    rec = json.loads(open(path).read())
    line = rec["observed"]["line"]
    r.build_harness()
    print("case :", line)
    print("impl :", r.impl("poisson", [line])[0][:600])
    print("model:", r.model("poisson", [line])[0][:600])
    return 0
