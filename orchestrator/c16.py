"""C16 — element-specification text and string-keyed access are total and consistent."""
import itertools
import json
import random

from .common import Run, Broken, WORK

RULE = ("exhaustive: every (element, isotope | none) pair of the table (render, parse back, read through every "
        "string accessor on list/map/enum compositions); ALL strings up to a fixed length over the alphabet "
        "{C, l, X, 1, 9, [, ], +, -, space, e-acute, superscript-2, CJK} through parse / FromStr / the helper and as "
        "read keys; random longer strings and mutations of valid specifications; class of a case = (operation, "
        "outcome of the real code, spec verdict)")
MODULES = ["Props.C16", "Inst.C16", "Inst.Variant", "Inst.C16Own", "Inst.C16Quick"]
ALPHABET = ["C", "l", "X", "1", "9", "[", "]", "+", "-", " ", "é", "²", "中"]


def cps(s):
    return " ".join(str(ord(c)) for c in s) if s else "-"


def run(r: Run):
    ok, out = r.build_harness()
    if not ok:
        r.oblige("harness builds against /repo", "corr", False, out[-800:])
        return r.finish(RULE)
    r.regen()
    r.lake_build(["driver"])
    r.prove(MODULES)
    if r.tier == "thorough":
        r.leanchecker(MODULES)
    rng = random.Random(r.seed)
    thorough = r.tier == "thorough"
    corr_ok = True
    # character classes: Rust's verdict vs the table hard-wired in the driver
    cl = [f"classify\t{ord(c)}" for c in ALPHABET + ["a", "Z", "0", "*", "😀"]]
    if r.impl("spec", cl) != r.model("spec", cl):
        raise Broken("driver character classes disagree with Rust's char::is_alphabetic/is_numeric/is_uppercase")
    # 1. all keys of the table
    rows = [json.loads(l) for l in (WORK / "dump.jsonl").read_text().splitlines() if l.strip()]
    keys = []
    for x in rows:
        if x["table"] != "global":
            continue
        keys.append((x["symbol"], 0))
        keys += [(x["symbol"], i["key"]) for i in x["isotopes"] if i["key"] != 0]
    lines = [f"display\t{s}:{i}" for s, i in keys]
    di, dm = r.impl("spec", lines), r.model("spec", lines)
    strings = []
    for (s, i), a, b in zip(keys, di, dm):
        r.case(("display", a == b), None)
        if a != b:
            corr_ok = False
            r.violation("display", {"key": f"{s}:{i}"}, f"Display of {s}[{i}] differs from the model", expected=b, observed={"lines": [f"display\t{s}:{i}"], "impl": a})
        strings.append("".join(chr(int(c)) for c in a.split()))
    # 2. strings: rendered keys, exhaustive short strings, mutations, random
    L = 5 if thorough else 4
    exhaustive = ["".join(t) for n in range(0, L + 1) for t in itertools.product(ALPHABET, repeat=n)]
    if thorough:
        small = ["C", "l", "1", "[", "]", "é", "+", "X"]
        exhaustive += ["".join(t) for t in itertools.product(small, repeat=6)]
    muts = []
    for s in strings[:: (1 if thorough else 3)]:
        for _ in range(3):
            t = list(s)
            op = rng.randrange(4)
            pos = rng.randrange(len(t) + 1)
            ch = rng.choice(ALPHABET + ["0", "5", "H", "e", "*"])
            if op == 0 and t:
                del t[min(pos, len(t) - 1)]
            elif op == 1:
                t.insert(pos, ch)
            elif op == 2 and t:
                t[min(pos, len(t) - 1)] = ch
            else:
                t = t + [ch]
            muts.append("".join(t))
    variants = ["C[013]", "C[+13]", "C[0]", "Ac[0]", "C[65549]", "C[99999999999999999999]", "Cl[37]", "Cl[+37]", "e*", "e*[0]", "H+",
                "Uuh", "Uuh[0]", "U[238]", "C[13]]", "C[[13]", "[C]", "]", "[", "C[1 3]", "C[13] ", " C", "😀", "😀]", "a😀"]
    # X[n] for every n around the element's isotope range that is not one of its isotopes
    kd = {}
    for s_, i_ in keys:
        kd.setdefault(s_, []).append(i_)
    for s_, isos in kd.items():
        real = [i for i in isos if i != 0]
        if real:
            variants += [f"{s_}[{n}]" for n in range(max(1, min(real) - 2), max(real) + 3) if n not in real]
    # every real isotope number respelled with characters that are NOT ASCII digits but look like them to a careless
    # decoder: same low byte (U+0430.., U+0130..), other decimal-digit blocks (Arabic-Indic U+0660.., fullwidth U+FF10..),
    # and isotope + k*65536
    lookalike = []
    for s_, isos in kd.items():
        for n in [i for i in isos if i != 0][:2]:
            for base in (0x0430, 0x0130, 0x0660, 0xFF10, 0x1D7CE):
                lookalike.append(f"{s_}[" + "".join(chr(base + int(d)) for d in str(n)) + "]")
            ds = str(n)
            lookalike.append(f"{s_}[{ds[:-1]}{chr(0x0430 + int(ds[-1]))}]")
            lookalike += [f"{s_}[{n + 65536}]", f"{s_}[{n + 2 * 65536}]", f"{s_}[{n + 4294967296}]"]
    variants += lookalike if thorough else lookalike[:: 2]
    # valid specifications decorated with characters a lenient front end trims or skips (what lossy decoding leaves behind:
    # U+FFFD; byte-order mark, zero-width and no-break space, blanks, line ends, soft hyphen, LRM, word joiner, NUL):
    # before, after, both sides, doubled — none is a specification, none may read a count
    TRIM = ["\ufffd", "\ufeff", "\u200b", "\u00a0", " ", "\t", "\n", "\r\n", "\u00ad", "\u200e", "\u2060", "\x00", "\u3000", "\u0085"]
    for d in TRIM:
        for g in ("C", "Ca", "C[13]", "Cl[37]", "Uuh", "e*"):
            variants += [d + g, g + d, d + g + d, d + g + d + d, g[:1] + d + g[1:]]
    rnd = ["".join(rng.choice(ALPHABET + ["H", "O", "0", "3", "e", "*"]) for _ in range(rng.randint(7, 24))) for _ in range(2000 if thorough else 300)]
    allstr = strings + variants + exhaustive + muts + rnd
    from .common import check_charclasses
    check_charclasses(r, allstr)
    plines = [f"parse\t{cps(s)}" for s in allstr]
    pi, pm = r.impl("spec", plines), r.model("spec", plines)
    for s, a, b in zip(allstr, pi, pm):
        model, verdict = b.split("\t")
        r.case(("parse", a.split(" ")[0], verdict.split(" ")[0]), {"string": s, "impl": a, "spec": verdict})
        bad = None
        if a == "panic" or a.startswith("entry-points-differ"):
            bad = ("parse-total", f"parsing {s!r}: {a}")
        elif verdict.startswith("accept") and a != "ok " + verdict.split(" ", 1)[1]:
            bad = ("parse-accept", f"parsing {s!r} gave {a}, must give {verdict}")
        elif verdict == "reject" and a.startswith("ok"):
            bad = ("parse-reject", f"parsing {s!r} gave {a}, but it is not a table symbol with an optional bracketed isotope it has")
        if bad:
            corr_ok = False
            r.violation(bad[0], {"shape": shape(s)}, bad[1], expected=verdict, observed={"lines": [f"parse\t{cps(s)}"], "impl": a}, model=model)
        elif a != model:
            corr_ok = False
            r.violation("corr-parse", {"shape": shape(s)}, f"parsing {s!r}: impl {a}, model {model}", expected=model,
                        observed={"lines": [f"parse\t{cps(s)}"], "impl": a}, kind="corr_broken")
    # 3. reads: every string as a read key on compositions of every form
    comps = ["C:0=2,C:13=5,Cl:0=7,Uuh:0=3", "-", "C:13=4", "Cl:37=1,Cl:0=9,e*:0=2,H:0=-3"]
    read_strings = strings[:: (1 if thorough else 2)] + variants + (exhaustive if thorough else exhaustive[:: 3]) + muts[:: 2]
    rlines, meta = [], []
    for s in read_strings:
        for form in ("vec", "map", "evec", "emap"):
            c = comps[0] if len(s) > 3 or rng.random() < 0.7 else rng.choice(comps)
            rlines.append(f"read\t{form}\t{c}\t{cps(s)}")
            meta.append((s, form))
    # ... and every key of the table read on a composition that HOLDS it (next to the plain entry of the same element):
    # "indexing by a valid key returns the same count as access by the parsed specification" for every (element, isotope)
    for sym, isos in table_keys().items():
        for iso in [0] + isos:
            text = sym if iso == 0 else f"{sym}[{iso}]"
            c = f"{sym}:{iso}=7" + (f",{sym}:0=3" if iso != 0 else "") + ",O:18=2"
            for form in (("vec", "map", "evec", "emap") if thorough or iso in isos[:2] or iso == 0 else ("vec", "emap")):
                rlines.append(f"read\t{form}\t{c}\t{cps(text)}")
                meta.append((text, form))
    # ... the plain symbol and the bracketed key read on compositions that hold both, in both insertion orders (a scan that
    # stops at the first entry of the element must not decide the answer)
    for sym, isos in table_keys().items():
        for iso in (isos if thorough else isos[:1]):
            if iso == 0:
                continue
            for c in (f"{sym}:{iso}=7,{sym}:0=3,O:18=2", f"{sym}:0=3,{sym}:{iso}=7", f"O:0=1,{sym}:{iso}=7,{sym}:0=3"):
                for text in (sym, f"{sym}[{iso}]"):
                    for form in ("vec", "map", "evec", "emap"):
                        rlines.append(f"read\t{form}\t{c}\t{cps(text)}")
                        meta.append((text, form))
    for text in (lookalike if thorough else lookalike[:: 4]):
        sym = text.split("[")[0]
        real = [i for i in kd.get(sym, []) if i != 0][:2]
        c = ",".join(f"{sym}:{i}=7" for i in real) + f",{sym}:0=3"
        for form in ("vec", "emap"):
            rlines.append(f"read\t{form}\t{c}\t{cps(text)}")
            meta.append((text, form))
    ri, rm = r.impl("spec", rlines), r.model("spec", rlines)
    for (s, form), line, a, b in zip(meta, rlines, ri, rm):
        model, spec = b.split("\t")
        r.case(("read", form, a, spec), {"string": s, "form": form, "impl": a, "spec": spec})
        ia = a.split(" ")
        sa = spec.split(" ")
        bad = None
        if "panic" in ia:
            bad = ("read-total", f"reading by {s!r} on the {form} form panicked: {a}")
        else:
            for name, x, y in (("index", ia[0], sa[0]), ("get_str", ia[1], sa[1])):
                if y != "*" and x != y:
                    bad = ("read-" + name, f"{name} by {s!r} on the {form} form returned {x}, must return {y}")
        if bad:
            corr_ok = False
            r.violation(bad[0], {"shape": shape(s), "form_kind": "map" if "map" in form else "vec"}, bad[1], expected=spec,
                        observed={"lines": [line], "impl": a}, model=model)
        elif a != model:
            corr_ok = False
            r.violation("corr-read", {"shape": shape(s)}, f"reading by {s!r} on {form}: impl {a}, model {model}", expected=model,
                        observed={"lines": [line], "impl": a}, kind="corr_broken")
    r.coverage["strings"] = dict(rendered_keys=len(strings), exhaustive=len(exhaustive), exhaustive_max_len=L,
                                 mutations=len(muts), random=len(rnd), reads=len(rlines))
    r.oblige("correspondence: ElementSpecification parse/Display and string-keyed reads agree with the model and the specification",
             "corr", corr_ok)
    return r.finish(RULE, exhaustive=True)


def table_keys():
    from .formula import table_keys as tk
    return tk()


def shape(s):
    """coarse class of a string for matching known findings: letters->a, digits->9, others kept"""
    out = []
    for c in s[:12]:
        if c.isascii() and c.isalpha():
            k = "a"
        elif c.isascii() and c.isdigit():
            k = "9"
        elif ord(c) > 127:
            k = "u"
        else:
            k = c
        if not out or out[-1] != k:
            out.append(k)
    return "".join(out)


def replay(r: Run, path):
    rec = json.loads(open(path).read())
    r.build_harness()
    for line in rec["observed"]["lines"]:
        print("case :", line)
        print("impl :", r.impl("spec", [line])[0])
        print("model:", r.model("spec", [line])[0])
    return 0
