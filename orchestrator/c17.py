"""C17 — the C binding mirrors the Rust API, reports errors by code and does not abort."""
import json
import os
import random
import re
import subprocess
from concurrent.futures import ThreadPoolExecutor

from .common import Run, Broken, HARNESS, Lock, sh, ddmin

RULE = ("call sequences up to length 40 over new / parse_formula / copy / get / set / increment / add / subtract / scale / "
        "mass / free through the exported extern \"C\" functions, with valid, malformed and non-UTF-8 NUL-free byte "
        "strings, every sequence in a child process (an abort is an observation); after each call the return code, the "
        "out-pointer, and mass + get on six probe keys of EVERY live handle are compared with the model built from the "
        "Rust-API models; all handles freed at the end; class = (set of functions called, error codes seen, length bucket)")
MODULES = ["Props.C17", "Props.C17Handles", "Inst.C17Ex"]
# arguments longer than any plausible fixed buffer (4096, 8192, 65536): their meaning must not depend on their length
LONG_FORMULA = [b"C" * 5000, b"C" * 4095 + b"He", b"(" + b"CH" * 2100 + b")2", b"C" * 8191 + b"Cl2"]
LONG_SPEC = [b"C[" + b"0" * 4200 + b"13]", b"C" + b"l" * 0 + b"[" + b"0" * 8190 + b"12]", b"C" * 4097]
# pairs of DIFFERENT compositions with the same number of entries and bit-identical masses: an element and its most
# abundant isotope fixed (H / H[1], C / C[12], O / O[16]); Bk and Cm (both tabulated at 247.0)
TWINS = [(b"H2O", b"H[1]2O"), (b"C6H12O6", b"C[12]6H12O6"), (b"Bk3", b"Cm3"), (b"H2O", b"H2O[16]"), (b"BkO2", b"CmO2")]
GOOD_FORMULA = [b"H2O", b"C6H12O6", b"C[13]2H5(OH)2", b"(CH2)3Cl[37]", b"Fe2O3", b"H+", b"C", b"NaCl", b"C2H6S1"]
BAD_FORMULA = [b"", b"H)", b"Xx", b"C[14]", b"(", b"h2o", b"C[13", b"\xff\xfe", b"C\xc3", b"H2O\xe4\xb8\xad", b"()", b"C[]2", b" H", b"C2147483648"]
GOOD_SPEC = [b"C", b"H", b"O", b"C[13]", b"Cl", b"Fe", b"Cl[37]", b"Fe[54]", b"e*", b"Uuh"]
BAD_SPEC = [b"", b"C[14]", b"Xx", b"C[", b"C[x]", b"C[99999]", b"\xc3\xa9", b"C\xff", b"C[13]x", b"[13]", b"\xf0\x9f\x98\x80", b"C]"]


# characters a lenient front end might strip or skip — byte-order mark, zero-width space, no-break space, blanks, line ends,
# soft hyphen, left-to-right mark, word joiner: the Rust parsers reject all of them, so must the binding
IGNORABLE = [b"\xef\xbb\xbf", b"\xe2\x80\x8b", b"\xc2\xa0", b" ", b"\t", b"\n", b"\r\n", b"\xc2\xad", b"\xe2\x80\x8e", b"\xe2\x81\xa0"]
DECORATED_FORMULA = [x for d in IGNORABLE for g in (b"H2O", b"C6H12O6", b"C[13]2H5(OH)2") for x in (d + g, g + d, g[:1] + d + g[1:], d)]
DECORATED_SPEC = [x for d in IGNORABLE for g in (b"C", b"C[13]", b"Cl") for x in (d + g, g + d)]
BAD_FORMULA = BAD_FORMULA + DECORATED_FORMULA
BAD_SPEC = BAD_SPEC + DECORATED_SPEC


def hx(b):
    return b.hex() if b else "-"


def gen_sequences(r: Run):
    rng = random.Random(r.seed)
    n = 20000 if r.tier == "thorough" else 1500
    from . import common as _c
    dseqs = []
    for d in _c.dict_ints(3, 10000):
        # arguments of exactly d-1, d, d+1 bytes whose meaning changes if a byte is lost
        f1 = b"C" * (d - 2) + b"He" if d >= 3 else b"He"
        f2 = b"C" * d
        sp = b"C[" + b"0" * max(0, d - 5) + b"13]"
        dseqs.append(["parse " + hx(f1), "get 0 " + hx(b"He"), "get 0 " + hx(b"H"), "get 0 " + hx(b"C"), "parse " + hx(f2), "get 1 " + hx(b"C"),
                      "new", "set 2 " + hx(sp) + " 5", "get 2 " + hx(b"C[13]"), "get 2 " + hx(sp), "mass 2"])
    tseqs = []
    for a, b in TWINS:
        probes = [hx(x) for x in (b"H", b"H[1]", b"C", b"C[12]", b"O", b"O[16]", b"Bk", b"Cm")]
        for op in ("sub", "add"):
            tseqs.append(["parse " + hx(a), "parse " + hx(b), f"{op} 0 1"] + [f"get 0 {x}" for x in probes] + ["mass 0", f"{op} 1 0"] + [f"get 1 {x}" for x in probes])
    iseqs = []
    for i in range(0, len(DECORATED_FORMULA), 4):
        fs = DECORATED_FORMULA[i:i + 4]
        sp = DECORATED_SPEC[(i // 4) % len(DECORATED_SPEC)]
        iseqs.append(["parse " + hx(f) for f in fs] + ["new", f"set 0 {hx(sp)} 5", f"inc 0 {hx(sp)} 2", f"get 0 {hx(sp)}", "get 0 " + hx(b"C"), "mass 0",
                                                        "parse " + hx(b"H2O"), f"get 1 {hx(sp)}"])
    # results exactly on the ends of i32 through the C ABI (scale to i32::MIN, subtract a count of i32::MIN — D31 —, add up to
    # i32::MAX): representable results must be exact
    H = hx(b"H")
    bseqs = [["new", f"set 0 {H} -1073741824", "scale 0 2", f"get 0 {H}", "new", f"set 1 {H} -5", "sub 1 0", f"get 1 {H}", "mass 1",
              "new", f"set 2 {H} 1073741823", "scale 2 2", f"inc 2 {H} 1", f"get 2 {H}", "copy 2", "scale 3 -1", f"get 3 {H}"],
             ["new", f"set 0 {H} 1", "scale 0 -2147483648", f"get 0 {H}", "new", f"set 1 {H} -1", "sub 1 0", f"get 1 {H}", "add 0 1", f"get 0 {H}"]]
    seqs = dseqs + tseqs + iseqs + bseqs + [
        ["parse " + hx(LONG_FORMULA[0]), "mass 0", "parse " + hx(LONG_FORMULA[1]), "get 1 " + hx(b"He"), "get 1 " + hx(b"H"), "parse " + hx(LONG_FORMULA[2]),
         "new", "set 3 " + hx(LONG_SPEC[0]) + " 5", "get 3 " + hx(b"C[13]"), "get 3 " + hx(LONG_SPEC[0]), "inc 3 " + hx(LONG_SPEC[2]) + " 1"],
        ["new", "parse 4829", "set 0 435b785d 1", "get 0 c3a9", "free 0"],
        ["parse " + hx(b"H2O"), "copy 0", "add 1 0", "mass 1", "sub 1 0", "scale 1 -3", "inc 1 " + hx(b"C[13]") + " 2", "get 1 " + hx(b"C[13]"), "free 0", "mass 1"],
    ]
    for _ in range(n):
        ops, live, nxt = [], [], 0
        bound = {}
        for _ in range(rng.randint(1, 40)):
            kind = rng.choices(["new", "parse", "copy", "get", "set", "inc", "add", "sub", "scale", "mass", "free"],
                               [4, 8, 3, 6, 8, 6, 5, 4, 3, 5, 3])[0]
            if kind == "new":
                ops.append("new"); live.append(nxt); bound[nxt] = 0; nxt += 1
            elif kind == "parse":
                b = rng.choice(GOOD_FORMULA if rng.random() < 0.6 else BAD_FORMULA)
                if rng.random() < 0.04:
                    b = rng.choice(LONG_FORMULA)
                ops.append("parse " + hx(b))
                # a successful parse creates a handle; we do not know here — the model tells; track optimistically below
                ops[-1] = ("P", b)
            elif not live:
                continue
            else:
                h = rng.choice(live)
                if kind == "copy":
                    ops.append(f"copy {h}"); live.append(nxt); bound[nxt] = bound[h]; nxt += 1
                elif kind == "get":
                    ops.append(f"get {h} " + hx(rng.choice(GOOD_SPEC + BAD_SPEC + (LONG_SPEC if rng.random() < 0.1 else []))))
                elif kind in ("set", "inc"):
                    v = rng.randint(-50, 50)
                    b = rng.choice(GOOD_SPEC if rng.random() < 0.7 else BAD_SPEC)
                    if rng.random() < 0.03:
                        b = rng.choice(LONG_SPEC)
                    ops.append(f"{kind} {h} {hx(b)} {v}"); bound[h] = bound[h] + abs(v)
                elif kind in ("add", "sub"):
                    g = rng.choice(live)
                    if g == h or bound[h] + bound[g] > 10 ** 8:
                        continue
                    ops.append(f"{kind} {h} {g}"); bound[h] += bound[g]
                elif kind == "scale":
                    k = rng.choice([-3, -1, 0, 1, 2, 7])
                    if bound[h] * abs(k) > 10 ** 8:
                        continue
                    ops.append(f"scale {h} {k}"); bound[h] *= abs(k)
                elif kind == "mass":
                    ops.append(f"mass {h}")
                elif kind == "free":
                    ops.append(f"free {h}"); live.remove(h)
            if ops and isinstance(ops[-1], tuple):
                b = ops[-1][1]
                ops[-1] = "parse " + hx(b)
                if b in GOOD_FORMULA or b in LONG_FORMULA:
                    live.append(nxt); bound[nxt] = 200000; nxt += 1
        if ops:
            seqs.append(ops)
    return seqs


# ---- AddressSanitizer replay ------------------------------------------------------------------
ASAN_TARGET = HARNESS / "target-asan"
ASAN_BIN = ASAN_TARGET / "x86_64-unknown-linux-gnu" / "debug" / "harness"
ASAN_ENV = {"ASAN_OPTIONS": "detect_leaks=1:exitcode=66:abort_on_error=0:allocator_may_return_null=1:detect_stack_use_after_return=0",
            "LSAN_OPTIONS": "exitcode=66"}


def build_asan():
    """the same harness, built by the nightly toolchain with -Zsanitizer=address (own target directory)"""
    with Lock("cargo-asan"):
        rc, out = sh(["cargo", "+nightly", "build", "--offline", "--quiet", "--target", "x86_64-unknown-linux-gnu"],
                     cwd=HARNESS, timeout=1800,
                     env={"RUSTFLAGS": "-Zsanitizer=address", "CARGO_TARGET_DIR": str(ASAN_TARGET)})
    return rc == 0 and ASAN_BIN.exists(), out


def asan_once(lines, timeout=600):
    """run op lines through the sanitized harness; returns (clean, report).  clean = exit 0 and no sanitizer text"""
    e = dict(os.environ)
    e.update(ASAN_ENV)
    try:
        p = subprocess.run([str(ASAN_BIN), "exec", "cbind"], input=("\n".join(lines) + "\n").encode(), env=e,
                           stdout=subprocess.PIPE, stderr=subprocess.PIPE, timeout=timeout)
    except subprocess.TimeoutExpired:
        return False, "timeout under AddressSanitizer"
    err = p.stderr.decode("utf-8", "replace")
    san = re.search(r"(AddressSanitizer|LeakSanitizer)[^\n]*", err)
    if p.returncode == 0 and not san:
        return True, ""
    summ = re.findall(r"SUMMARY: [^\n]*", err)
    first = re.search(r"ERROR: (AddressSanitizer|LeakSanitizer): [^\n]*", err)
    return False, (first.group(0) if first else (san.group(0) if san else f"exit status {p.returncode}")) + \
        (" / " + summ[-1] if summ else "")


def asan_replay(r: Run, seqs, lines):
    """every generated call sequence again, in the sanitized build; a report is narrowed to one sequence and
    then to a minimal call list.  Sequences on which the plain build already died are skipped (reported there)."""
    ok, out = build_asan()
    if not ok:
        r.notes["asan"] = "unavailable: " + out[-300:]
        r.assumptions.append("the AddressSanitizer build of the harness (nightly, -Zsanitizer=address) did not build here; "
                             "the memory-safety clause rests on ownership + the child's exit status in this run")
        return None
    shards = 16
    chunks = [list(range(i, len(lines), shards)) for i in range(shards)]
    with ThreadPoolExecutor(max_workers=shards) as ex:
        res = list(ex.map(lambda idx: asan_once([lines[i] for i in idx]), chunks))
    bad = 0
    bad_shards = sum(1 for c, _ in res if not c)
    for idx, (clean, rep) in zip(chunks, res):
        if clean or bad >= 3:
            continue
        # narrow to one sequence of this shard (first failing one), then to a minimal call list
        found = False
        for i in idx:
            c1, rep1 = asan_once([lines[i]], timeout=120)
            if c1:
                continue
            found = True
            bad += 1
            ops = seqs[i]
            small = ddmin(ops, lambda sub: not asan_once(["cbind\t" + ";".join(sub)], timeout=120)[0])
            _, rep2 = asan_once(["cbind\t" + ";".join(small)], timeout=120)
            r.violation("asan", {"calls": [o.split()[0] for o in small]},
                        f"AddressSanitizer reports on the contract-abiding call sequence `{';'.join(small)[:200]}`: {rep2[:200]}",
                        expected="no invalid access, double free or leak once every handle has been freed",
                        observed={"lines": ["cbind\t" + ";".join(small)], "impl": rep2[:400]})
            break
        if not found:
            # the shard reports as a whole but no single sequence does: report the shard
            bad += 1
            r.violation("asan", {"calls": ["<shard>"]}, f"AddressSanitizer reports on a batch of sequences: {rep[:200]}",
                        observed={"lines": [lines[i] for i in idx][:50], "impl": rep[:400]})
    bad = max(bad, bad_shards)
    r.notes["asan"] = dict(sequences=len(lines), reports=bad, options=ASAN_ENV["ASAN_OPTIONS"],
                           build="cargo +nightly build --target x86_64-unknown-linux-gnu, RUSTFLAGS=-Zsanitizer=address")
    return bad == 0


def to_model_ops(ops, outs):
    """replace hex byte strings by the code points of the lossy conversion the real code performed"""
    res = []
    for op, o in zip(ops, outs):
        w = op.split()
        if w[0] in ("parse", "get", "set", "inc") and "@" in o:
            cps = o.rsplit("@", 1)[1] or "-"
            idx = 1 if w[0] == "parse" else 2
            w[idx] = cps
        res.append(" ".join(w))
    return res


def run(r: Run):
    ok, out = r.build_harness()
    if not ok:
        r.oblige("harness builds against /repo and /repo/bindings/c", "corr", False, out[-800:])
        return r.finish(RULE)
    r.regen()
    r.lake_build(["driver"])
    r.prove(MODULES)
    if r.tier == "thorough":
        r.leanchecker(MODULES)
    seqs = gen_sequences(r)
    lines = ["cbind\t" + ";".join(ops) for ops in seqs]
    impl = r.impl("cbind", lines, stall=60)
    # second pass: model lines need the lossy-decoded strings reported by the first pass
    mlines, keep = [], []
    for i, (ops, il) in enumerate(zip(seqs, impl)):
        outs = il.split(";")
        if il == "not-run":
            keep.append("skip")
            continue
        if il.startswith("abort") or il == "timeout" or len(outs) != len(ops):
            keep.append(None)
            continue
        keep.append(len(mlines))
        mlines.append("cbind\t" + ";".join(to_model_ops(ops, outs)))
    model = r.model("cbind", mlines, stall=120)
    corr_ok = True
    for ops, line, il, k in zip(seqs, lines, impl, keep):
        fns = tuple(sorted(set(o.split()[0] for o in ops)))
        if k == "skip":
            continue
        if k is None:
            r.case((fns, "died"), {"ops": ops[:8], "impl": il[:80]})
            corr_ok = False
            # find the call it died on by replaying prefixes
            last = ops
            for n in range(1, len(ops) + 1):
                o = r.impl("cbind", ["cbind\t" + ";".join(ops[:n])], stall=30)[0]
                if o.startswith("abort") or o in ("timeout",):
                    last = ops[:n]
                    break
            if any(v["clause"] == "abort" for v in r.violations) and len(r.violations) >= 6:
                continue
            r.violation("abort", {"call": last[-1].split()[0], "arg": last[-1].split()[2] if len(last[-1].split()) > 2 else (last[-1].split()[1] if len(last[-1].split()) > 1 else "")},
                        f"the process died ({il[:30]}) in C-ABI call `{last[-1]}`", observed={"lines": ["cbind\t" + ";".join(last)], "impl": il[:100]})
            continue
        ml = model[k]
        iouts = [o.rsplit("@", 1)[0] for o in il.split(";")]
        mouts = ml.split(";")
        codes = tuple(sorted(set(o.split(":")[0] for o in iouts if ":" in o)))
        r.case((fns, codes, min(len(ops), 40) // 10), {"ops": ops[:8], "impl": iouts[:3]})
        if len(iouts) != len(mouts):
            raise Broken(f"cbind protocol: {ml[:100]}")
        for n, (op, a, b) in enumerate(zip(ops, iouts, mouts)):
            if a != b:
                corr_ok = False
                fn = op.split()[0]
                clause = "abort" if b == "abort" else ("handle-set" if a.split("|")[0] == b.split("|")[0] else "return")
                r.violation(clause, {"call": fn}, f"after `{op}`: C binding reports {a[:120]}, the Rust-API model {b[:120]}",
                            expected=b[:400], observed={"lines": ["cbind\t" + ";".join(ops[: n + 1])], "impl": a[:400]})
                break
    r.coverage["sequences"] = len(seqs)
    r.oblige("correspondence: every C-ABI call returns the code / out-pointer / observable state the model predicts, and no call aborts", "corr", corr_ok)
    alive = [(ops, line) for ops, line, k in zip(seqs, lines, keep) if k not in (None, "skip")]
    clean = asan_replay(r, [a for a, _ in alive], [b for _, b in alive])
    if clean is not None:
        r.oblige("AddressSanitizer replay: no invalid access, double free or leak on any generated call sequence (all handles freed)", "corr", clean)
    r.assumptions.append("memory safety (no invalid access / double free / leak) is not a theorem: handle bookkeeping is proved on the model "
                         "(handles_balance), Rust ownership is trusted, and every generated sequence is replayed under AddressSanitizer + LeakSanitizer")
    return r.finish(RULE)


def replay(r: Run, path):
    rec = json.loads(open(path).read())
    r.build_harness()
    for line in rec["observed"]["lines"]:
        print("case :", line[:400])
        print("impl :", r.impl("cbind", [line], stall=30)[0][:800].replace(";", "\n       "))
        if rec.get("clause") == "asan" and build_asan()[0]:
            print("asan :", asan_once([line], timeout=120))
    return 0
