"""C17 — the C binding mirrors the Rust API, reports errors by code and does not abort."""
import json
import random

from .common import Run, Broken

RULE = ("call sequences up to length 40 over new / parse_formula / copy / get / set / increment / add / subtract / scale / "
        "mass / free through the exported extern \"C\" functions, with valid, malformed and non-UTF-8 NUL-free byte "
        "strings, every sequence in a child process (an abort is an observation); after each call the return code, the "
        "out-pointer, and mass + get on six probe keys of EVERY live handle are compared with the model built from the "
        "Rust-API models; all handles freed at the end; class = (set of functions called, error codes seen, length bucket)")
MODULES = ["Props.C17"]
GOOD_FORMULA = [b"H2O", b"C6H12O6", b"C[13]2H5(OH)2", b"(CH2)3Cl[37]", b"Fe2O3", b"H+", b"C", b"NaCl", b"C2H6S1"]
BAD_FORMULA = [b"", b"H)", b"Xx", b"C[14]", b"(", b"h2o", b"C[13", b"\xff\xfe", b"C\xc3", b"H2O\xe4\xb8\xad", b"()", b"C[]2", b" H", b"C2147483648"]
GOOD_SPEC = [b"C", b"H", b"O", b"C[13]", b"Cl", b"Fe", b"Cl[37]", b"Fe[54]", b"e*", b"Uuh"]
BAD_SPEC = [b"", b"C[14]", b"Xx", b"C[", b"C[x]", b"C[99999]", b"\xc3\xa9", b"C\xff", b"C[13]x", b"[13]", b"\xf0\x9f\x98\x80", b"C]"]


def hx(b):
    return b.hex() if b else "-"


def gen_sequences(r: Run):
    rng = random.Random(r.seed)
    n = 20000 if r.tier == "thorough" else 1500
    seqs = [
        ["new", "parse 4829", "set 0 435b785d 1", "get 0 c3a9", "free 0"],
        ["parse " + hx(b"H2O"), "copy 0", "add 1 0", "mass 1", "sub 1 0", "scale 1 -3", "inc 1 " + hx(b"C[13]") + " 2", "get 1 " + hx(b"C[13]"), "free 0", "mass 1"],
    ]
    for _ in range(n):
        ops, live, nxt = [], [], 0
        bound = {}
        for _ in range(rng.randint(1, 40)):
            kind = rng.choices(["new", "parse", "copy", "get", "set", "inc", "add", "sub", "scale", "mass", "free"],
                               [4, 8, 3, 6, 8, 6, 5, 4, 3, 5, 3])[0]
            if kind == "new":
                ops.append("new"); live.append(nxt); bound[nxt] = 0; nxt += 1
            elif kind == "parse":
                b = rng.choice(GOOD_FORMULA if rng.random() < 0.6 else BAD_FORMULA)
                ops.append("parse " + hx(b))
                # a successful parse creates a handle; we do not know here — the model tells; track optimistically below
                ops[-1] = ("P", b)
            elif not live:
                continue
            else:
                h = rng.choice(live)
                if kind == "copy":
                    ops.append(f"copy {h}"); live.append(nxt); bound[nxt] = bound[h]; nxt += 1
                elif kind == "get":
                    ops.append(f"get {h} " + hx(rng.choice(GOOD_SPEC + BAD_SPEC)))
                elif kind in ("set", "inc"):
                    v = rng.randint(-50, 50)
                    b = rng.choice(GOOD_SPEC if rng.random() < 0.7 else BAD_SPEC)
                    ops.append(f"{kind} {h} {hx(b)} {v}"); bound[h] = bound[h] + abs(v)
                elif kind in ("add", "sub"):
                    g = rng.choice(live)
                    if g == h or bound[h] + bound[g] > 10 ** 8:
                        continue
                    ops.append(f"{kind} {h} {g}"); bound[h] += bound[g]
                elif kind == "scale":
                    k = rng.choice([-3, -1, 0, 1, 2, 7])
                    if bound[h] * abs(k) > 10 ** 8:
                        continue
                    ops.append(f"scale {h} {k}"); bound[h] *= abs(k)
                elif kind == "mass":
                    ops.append(f"mass {h}")
                elif kind == "free":
                    ops.append(f"free {h}"); live.remove(h)
            if ops and isinstance(ops[-1], tuple):
                b = ops[-1][1]
                ops[-1] = "parse " + hx(b)
                if b in GOOD_FORMULA:
                    live.append(nxt); bound[nxt] = 2000; nxt += 1
        if ops:
            seqs.append(ops)
    return seqs


def to_model_ops(ops, outs):
    """replace hex byte strings by the code points of the lossy conversion the real code performed"""
    res = []
    for op, o in zip(ops, outs):
        w = op.split()
        if w[0] in ("parse", "get", "set", "inc") and "@" in o:
            cps = o.rsplit("@", 1)[1] or "-"
            idx = 1 if w[0] == "parse" else 2
            w[idx] = cps
        res.append(" ".join(w))
    return res


def run(r: Run):
    ok, out = r.build_harness()
    if not ok:
        r.oblige("harness builds against /repo and /repo/bindings/c", "corr", False, out[-800:])
        return r.finish(RULE)
    r.regen()
    r.lake_build(["driver"])
    r.prove(MODULES)
    if r.tier == "thorough":
        r.leanchecker(MODULES)
    seqs = gen_sequences(r)
    lines = ["cbind\t" + ";".join(ops) for ops in seqs]
    impl = r.impl("cbind", lines, stall=60)
    # second pass: model lines need the lossy-decoded strings reported by the first pass
    mlines, keep = [], []
    for i, (ops, il) in enumerate(zip(seqs, impl)):
        outs = il.split(";")
        if il == "not-run":
            keep.append("skip")
            continue
        if il.startswith("abort") or il == "timeout" or len(outs) != len(ops):
            keep.append(None)
            continue
        keep.append(len(mlines))
        mlines.append("cbind\t" + ";".join(to_model_ops(ops, outs)))
    model = r.model("cbind", mlines, stall=120)
    corr_ok = True
    for ops, line, il, k in zip(seqs, lines, impl, keep):
        fns = tuple(sorted(set(o.split()[0] for o in ops)))
        if k == "skip":
            continue
        if k is None:
            r.case((fns, "died"), {"ops": ops[:8], "impl": il[:80]})
            corr_ok = False
            # find the call it died on by replaying prefixes
            last = ops
            for n in range(1, len(ops) + 1):
                o = r.impl("cbind", ["cbind\t" + ";".join(ops[:n])], stall=30)[0]
                if o.startswith("abort") or o in ("timeout",):
                    last = ops[:n]
                    break
            if any(v["clause"] == "abort" for v in r.violations) and len(r.violations) >= 6:
                continue
            r.violation("abort", {"call": last[-1].split()[0], "arg": last[-1].split()[2] if len(last[-1].split()) > 2 else (last[-1].split()[1] if len(last[-1].split()) > 1 else "")},
                        f"the process died ({il[:30]}) in C-ABI call `{last[-1]}`", observed={"lines": ["cbind\t" + ";".join(last)], "impl": il[:100]})
            continue
        ml = model[k]
        iouts = [o.rsplit("@", 1)[0] for o in il.split(";")]
        mouts = ml.split(";")
        codes = tuple(sorted(set(o.split(":")[0] for o in iouts if ":" in o)))
        r.case((fns, codes, min(len(ops), 40) // 10), {"ops": ops[:8], "impl": iouts[:3]})
        if len(iouts) != len(mouts):
            raise Broken(f"cbind protocol: {ml[:100]}")
        for n, (op, a, b) in enumerate(zip(ops, iouts, mouts)):
            if a != b:
                corr_ok = False
                fn = op.split()[0]
                clause = "abort" if b == "abort" else ("handle-set" if a.split("|")[0] == b.split("|")[0] else "return")
                r.violation(clause, {"call": fn}, f"after `{op}`: C binding reports {a[:120]}, the Rust-API model {b[:120]}",
                            expected=b[:400], observed={"lines": ["cbind\t" + ";".join(ops[: n + 1])], "impl": a[:400]})
                break
    r.coverage["sequences"] = len(seqs)
    r.oblige("correspondence: every C-ABI call returns the code / out-pointer / observable state the model predicts, and no call aborts", "corr", corr_ok)
    r.assumptions.append("memory safety (no invalid access / double free / leak) is not a theorem: handle bookkeeping is proved on the model, Rust ownership is trusted, the child's exit status is observed")
    return r.finish(RULE)


def replay(r: Run, path):
    rec = json.loads(open(path).read())
    r.build_harness()
    for line in rec["observed"]["lines"]:
        print("case :", line[:400])
        print("impl :", r.impl("cbind", [line], stall=30)[0][:800].replace(";", "\n       "))
    return 0
