"""Shared machinery of ./check: build, regenerate, prove, audit, run both interpreters, decide,
write evidence.  Python standard library only."""
import fcntl
import json
import os
import re
import subprocess
import sys
import time
from fractions import Fraction
from pathlib import Path

sys.set_int_max_str_digits(0)
ROOT = Path(__file__).resolve().parent.parent
LEAN = ROOT / "lean"
HARNESS = ROOT / "harness"
WORK = ROOT / "work"
REPO = Path(os.environ.get("VERIF_REPO", "/repo"))
ALLOWED_AXIOMS = {"propext", "Classical.choice", "Quot.sound"}
FORBIDDEN = re.compile(
    r"\bsorry\b|\badmit\b|^axiom\s|native_decide|bv_decide|implemented_by|\bunsafe\s|maxHeartbeats\s+0\b")

TRUSTED_BASE = [
    "Lean 4.33.0 kernel (thorough tier: re-checked with leanchecker)",
    "axioms allowed: propext, Classical.choice, Quot.sound (audited with #print axioms on every theorem)",
    "translator: harness dump-table + tools/gen_table.py (two front-ends cross-checked)",
    "correspondence check: Rust harness (exec mode), Lean driver, python comparison and its generators",
    "rustc/cargo building /repo as a path dependency of the harness (dev profile, overflow checks on)",
]


COMP_TYPES = ["ChemicalCompositionVec", "ChemicalCompositionMap", "ChemicalComposition", "ChemicalCompositionRef", "ElementSpecification"]
BRAIN_TYPES = ["IsotopicDistribution", "IsotopicConstants", "PhiConstants", "PolynomialParameters", "Peak"]
PROP_SHAPES = {
    "C01": ["FormulaParser"] + COMP_TYPES, "C02": COMP_TYPES, "C04": COMP_TYPES, "C06": COMP_TYPES,
    "C05": ["FormulaParser"], "C07": ["FormulaParser"] + COMP_TYPES,
    "C03": BRAIN_TYPES, "C09": BRAIN_TYPES, "C10": BRAIN_TYPES,
    "C08": BRAIN_TYPES + ["BafflingRecursiveIsotopicPatternGenerator", "IsotopicConstantsCache"],
    "C11": ["Peak", "TheoreticalIsotopicPattern"], "C12": ["Element", "Isotope", "PeriodicTable"],
    "C13": ["Peak", "TheoreticalIsotopicPattern"], "C14": ["Peak", "TheoreticalIsotopicPattern", "IncrementalTruncationIter"],
    "C15": ["Peak"], "C16": COMP_TYPES, "C17": ["CChemicalComposition", "ChemicalComposition"],
}


# diff-derived dictionary (tools/anchors.py: dictionary), set by ./check before the generators run
DICT_INTS = []
DICT_FLOATS = []


def dict_ints(lo=3, hi=10 ** 9):
    """d-1, d, d+1 for every new integer literal d of the anchored code within [lo, hi]"""
    out = []
    for d in DICT_INTS:
        for v in (d - 1, d, d + 1):
            if lo <= v <= hi and v not in out:
                out.append(v)
    return out


class Broken(Exception):
    """the check itself is broken (not a finding about /repo)"""


def sh(cmd, cwd=None, env=None, timeout=None, input_bytes=None):
    e = dict(os.environ)
    e["CARGO_NET_OFFLINE"] = "true"
    if env:
        e.update(env)
    p = subprocess.run(cmd, cwd=cwd, env=e, stdout=subprocess.PIPE, stderr=subprocess.STDOUT,
                       timeout=timeout, input=input_bytes)
    return p.returncode, p.stdout.decode("utf-8", "replace")


class Lock:
    def __init__(self, name):
        WORK.mkdir(exist_ok=True)
        self.path = WORK / f".{name}.lock"

    def __enter__(self):
        self.f = open(self.path, "w")
        fcntl.flock(self.f, fcntl.LOCK_EX)
        return self

    def __exit__(self, *a):
        fcntl.flock(self.f, fcntl.LOCK_UN)
        self.f.close()


def strip_comments(text):
    text = re.sub(r"/-.*?-/", "", text, flags=re.S)
    text = re.sub(r"--.*", "", text)
    return text


def theorem_names(path: Path):
    """qualified names of the theorems declared in a Lean file (namespace tracking by regex)"""
    ns = []
    out = []
    for line in strip_comments(path.read_text()).splitlines():
        m = re.match(r"\s*namespace\s+(\S+)", line)
        if m:
            ns.append(m.group(1))
            continue
        m = re.match(r"\s*end\s+(\S+)", line)
        if m and ns and ns[-1] == m.group(1):
            ns.pop()
            continue
        m = re.match(r"\s*(?:protected\s+|private\s+)?theorem\s+([^\s:({\[]+)", line)
        if m:
            out.append(".".join(ns + [m.group(1)]))
    return out


class Run:
    def __init__(self, prop, tier, seed):
        self.prop = prop
        self.tier = tier
        self.seed = seed
        self.t0 = time.time()
        self.obligations = []      # dict(name, kind, ok, detail)
        self.violations = []       # dict(...)
        self.known_hits = []
        self.coverage = {}
        self.assumptions = []
        self.samples = []
        self.evaluations = 0
        self.classes = set()
        self.notes = {}
        self.work = WORK / prop
        self.work.mkdir(parents=True, exist_ok=True)
        kf = ROOT / "known_findings.json"
        self.known = json.loads(kf.read_text()) if kf.exists() else {"findings": [], "fixed": []}
        self.replay_n = 0
        for old in (ROOT / "replays").glob(f"{prop}-*.json"):
            old.unlink()

    # ---- obligations -------------------------------------------------------------------------
    def oblige(self, name, kind, ok, detail=""):
        self.obligations.append(dict(name=name, kind=kind, ok=bool(ok), detail=detail))

    # ---- building ----------------------------------------------------------------------------
    def build_harness(self):
        with Lock("cargo"):
            rc, out = sh(["cargo", "build", "--offline", "--quiet"], cwd=HARNESS, timeout=1800)
        if rc != 0:
            return False, out
        return True, out

    def harness_bin(self):
        # VERIF_HARNESS_BIN: tools/coverage.sh substitutes a coverage-instrumented build of the same harness
        return os.environ.get("VERIF_HARNESS_BIN") or str(HARNESS / "target" / "debug" / "harness")

    def driver_bin(self):
        return str(LEAN / ".lake" / "build" / "bin" / "driver")

    def regen(self):
        """translator: dump the compiled table, regenerate Gen/*.lean"""
        rc, out = sh([self.harness_bin(), "dump-table"], timeout=300)
        if rc != 0:
            raise Broken("dump-table failed: " + out[-2000:])
        dump = WORK / "dump.jsonl"
        with Lock("gen"):
            dump.write_text(out)
            rc, rep = sh([sys.executable, str(ROOT / "tools" / "gen_table.py"), str(dump), str(REPO),
                          str(LEAN / "ChemProofs" / "Gen")], timeout=300)
            rc2, rep2 = sh([sys.executable, str(ROOT / "tools" / "gen_consts.py"), str(REPO),
                            str(LEAN / "ChemProofs" / "Gen")], timeout=300)
        if rc != 0:
            raise Broken("gen_table failed: " + rep[-2000:])
        if rc2 != 0:
            raise Broken("gen_consts failed: " + rep2[-2000:])
        report = json.loads(rep.strip().splitlines()[-1])
        report["consts"] = json.loads(rep2.strip().splitlines()[-1])
        # The runtime dump is what the compiled code holds and is what is translated; the regex view of
        # table.rs is a cross-check.  A disagreement means the code transforms the literals at run time
        # (index_isotopes already does, for min/max); it is recorded, not fatal.
        report["frontend_disagreements"] = report.pop("problems")
        self.notes["translator"] = report
        return report

    def lake_build(self, targets):
        with Lock("lake"):
            rc, out = sh(["lake", "build"] + targets, cwd=LEAN, timeout=3600)
        return rc == 0, out

    def prove(self, modules):
        """build the given ChemProofs modules; one obligation per theorem in them.
        Returns (all_ok, failing_theorem_names, lake_output)."""
        ok, out = self.lake_build(["ChemProofs." + m for m in modules] + ["driver"])
        failing = set()
        bad_files = set()
        if not ok:
            for m in re.finditer(r"error: (ChemProofs/\S+?\.lean):(\d+):(\d+)", out):
                bad_files.add(m.group(1))
                failing |= self._theorem_at(LEAN / m.group(1), int(m.group(2)))
            for m in re.finditer(r"^- (ChemProofs\.\S+)", out, flags=re.M):
                bad_files.add(m.group(1).replace(".", "/") + ".lean")
        axioms = self.audit(modules) if ok else {}
        for mod in modules:
            path = LEAN / "ChemProofs" / (mod.replace(".", "/") + ".lean")
            rel = "ChemProofs/" + mod.replace(".", "/") + ".lean"
            for name in theorem_names(path):
                if not ok:
                    # a module that did not build discharges nothing; modules that built still count
                    good = rel not in bad_files and not any(b for b in bad_files)
                    good = rel not in bad_files and self._module_built(mod)
                    self.oblige(name, "theorem", good and name not in failing,
                                "build failed" if not good else "")
                else:
                    ax = axioms.get(name)
                    if ax is None:
                        self.oblige(name, "theorem", False, "not found by #print axioms")
                    else:
                        extra = set(ax) - ALLOWED_AXIOMS
                        self.oblige(name, "theorem", not extra,
                                    ("axioms: " + ",".join(sorted(ax))) if ax else "no axioms")
        hits = self.grep_forbidden()
        self.oblige("no sorry/admit/axiom/native_decide/bv_decide/implemented_by/unsafe in Lean sources",
                    "audit", not hits, "; ".join(hits[:5]))
        self.check_shapes()
        return ok, failing, out

    def check_shapes(self):
        """state-shape obligation (tools/shapes.py): the structs whose state the model of this property carries declare
        exactly the fields they had when the model was validated"""
        names = PROP_SHAPES.get(self.prop, [])
        if not names:
            return
        sys.path.insert(0, str(ROOT))
        from tools.shapes import differences
        diff = differences(names, REPO)
        self.oblige("state shape: " + ", ".join(names) + " declare exactly the fields the model carries (state_shapes.json)",
                    "shape", not diff, "; ".join(diff)[:600])
        if diff:
            self.notes["state_shape_differences"] = diff

    def _module_built(self, mod):
        return (LEAN / ".lake" / "build" / "lib" / "lean" / "ChemProofs" /
                (mod.replace(".", "/") + ".olean")).exists()

    def _theorem_at(self, path, line):
        """name of the theorem whose text contains the given line"""
        names = set()
        cur = None
        ns = []
        try:
            lines = path.read_text().splitlines()
        except OSError:
            return names
        for i, l in enumerate(lines, 1):
            m = re.match(r"\s*namespace\s+(\S+)", l)
            if m:
                ns.append(m.group(1))
            m = re.match(r"\s*(?:protected\s+|private\s+)?(?:theorem|def|example|instance|lemma)\s+([^\s:({\[]+)?", l)
            if m:
                cur = ".".join(ns + [m.group(1)]) if m.group(1) else None
            if i == line and cur:
                names.add(cur)
        return names

    def audit(self, modules):
        names = []
        for mod in modules:
            names += theorem_names(LEAN / "ChemProofs" / (mod.replace(".", "/") + ".lean"))
        src = "\n".join(f"import ChemProofs.{m}" for m in modules) + "\n" + \
            "\n".join(f"#print axioms {n}" for n in names) + "\n"
        f = self.work / "Audit.lean"
        f.write_text(src)
        rc, out = sh(["lake", "env", "lean", str(f)], cwd=LEAN, timeout=1800)
        res = {}
        for m in re.finditer(r"'(\S+)' depends on axioms: \[([^\]]*)\]", out, flags=re.S):
            res[m.group(1)] = [a.strip() for a in m.group(2).replace("\n", " ").split(",") if a.strip()]
        for m in re.finditer(r"'(\S+)' does not depend on any axioms", out):
            res[m.group(1)] = []
        self.notes["audit_cmd"] = f"lake env lean {f}"
        return res

    def grep_forbidden(self):
        hits = []
        files = list((LEAN / "ChemProofs").rglob("*.lean")) + [LEAN / "Driver.lean"]
        for p in files:
            if "/Gen/" in str(p):
                continue
            for i, line in enumerate(strip_comments(p.read_text()).splitlines(), 1):
                if FORBIDDEN.search(line):
                    hits.append(f"{p.relative_to(LEAN)}: {line.strip()[:80]}")
        return hits

    def leanchecker(self, modules):
        for mod in modules:
            rc, out = sh(["lake", "env", "leanchecker", "ChemProofs." + mod], cwd=LEAN, timeout=3600)
            self.oblige(f"leanchecker ChemProofs.{mod}", "recheck", rc == 0, out[-300:])

    # ---- interpreters ------------------------------------------------------------------------
    def run_lines(self, binary, mode, lines, tag, timeout=1500, extra_args=(), stall=20):
        """feed op lines to an interpreter; returns one output line per op.  A process that dies
        (abort, stack overflow) yields 'abort' for the op it died on and is restarted after it; a
        process that produces no output for `stall` seconds (divergence) is killed and the op it was
        working on yields 'timeout'; after three such stalls the rest of the stream is 'not-run'."""
        import tempfile
        import threading
        outs = []
        pos = 0
        n = len(lines)
        rounds = 0
        stalls = 0
        t_end = time.time() + timeout
        while pos < n:
            rounds += 1
            if stalls >= 3 or time.time() > t_end:
                outs += ["not-run"] * (n - pos)
                break
            with tempfile.TemporaryFile() as fin:
                fin.write(("\n".join(lines[pos:]) + "\n").encode())
                fin.seek(0)
                p = subprocess.Popen([binary, mode, *extra_args], stdin=fin, stdout=subprocess.PIPE,
                                     stderr=subprocess.DEVNULL)
                got = []
                last = [time.time()]

                def reader():
                    for raw in p.stdout:
                        got.append(raw.decode("utf-8", "replace").rstrip("\n"))
                        last[0] = time.time()
                th = threading.Thread(target=reader, daemon=True)
                th.start()
                stalled = False
                while th.is_alive():
                    th.join(0.5)
                    if th.is_alive() and (time.time() - last[0] > stall or time.time() > t_end):
                        stalled = True
                        p.kill()
                        th.join(5)
                        break
                p.wait()
            if len(got) >= n - pos:
                outs += got[: n - pos]
                pos = n
                break
            outs += got
            pos += len(got)
            stalls += 1 if stalled else 0
            outs.append("timeout" if stalled else f"abort\t{p.returncode}")
            pos += 1
            if rounds > 60:
                # the interpreter keeps dying (each death is recorded above as 'abort'): stop spending time
                outs += ["not-run"] * (n - pos)
                pos = n
        return outs

    def model_dump(self, mode, timeout=3600):
        """a driver mode that takes no input and prints a fixed report"""
        p = subprocess.run([self.driver_bin(), mode], input=b"", stdout=subprocess.PIPE,
                           stderr=subprocess.PIPE, timeout=timeout)
        if p.returncode != 0:
            raise Broken(f"driver {mode} failed: {p.stderr.decode('utf-8','replace')[-500:]}")
        return [l for l in p.stdout.decode("utf-8", "replace").split("\n") if l]

    def sharded(self, binary, mode, lines, tag, shards=None, **kw):
        """run_lines over strided shards in parallel (16 cores); order of results preserved"""
        n = len(lines)
        if shards is None:
            shards = 1 if n < 64 else min(16, max(1, n // 32))
        if shards <= 1:
            return self.run_lines(binary, mode, lines, tag, **kw)
        from concurrent.futures import ThreadPoolExecutor
        chunks = [lines[i::shards] for i in range(shards)]      # strided: heavy cases tend to be neighbours
        with ThreadPoolExecutor(max_workers=shards) as ex:
            parts = list(ex.map(lambda ch: self.run_lines(binary, mode, ch, tag, **kw), chunks))
        out = [None] * n
        for i, part in enumerate(parts):
            out[i::shards] = part
        return out

    def impl(self, mode, lines, **kw):
        return self.sharded(self.harness_bin(), "exec", lines, "harness", extra_args=(mode,), **kw)

    def model(self, mode, lines, **kw):
        return self.sharded(self.driver_bin(), mode, lines, "driver", **kw)

    # ---- violations --------------------------------------------------------------------------
    def match_known(self, clause, witness):
        for f in self.known.get("findings", []):
            if f.get("property") != self.prop:
                continue
            if f.get("clause") not in (None, clause):
                continue
            m = f.get("match", {})
            if all(witness.get(k) == v for k, v in m.items()):
                return f
        return None

    def violation(self, clause, witness, what, expected=None, observed=None, model=None,
                  kind="impl_vs_spec", rerun=None, no_input=False):
        """record a violation (after shrinking); witness is a small dict identifying the input"""
        f = None if no_input else self.match_known(clause, witness)
        if f is not None:
            if not any(h is f for h in self.known_hits):
                self.known_hits.append(f)
                print(f"KNOWN-FINDING: property={self.prop} {f.get('what', what)}")
            return
        for v in self.violations:
            if v["clause"] == clause and v["witness"] == witness:
                return
        if len(self.violations) >= 12:
            self.notes["violations_not_written"] = self.notes.get("violations_not_written", 0) + 1
            return
        self.replay_n += 1
        rp = ROOT / "replays" / f"{self.prop}-{self.seed}-{self.replay_n}.json"
        rp.parent.mkdir(exist_ok=True)
        rec = dict(property=self.prop, kind=kind, clause=clause, witness=witness, what=what,
                   expected=expected, observed=observed, model=model, seed=self.seed, tier=self.tier,
                   rerun=rerun or f"./check {self.prop} --replay {rp}")
        rp.write_text(json.dumps(rec, indent=1, default=str) + "\n")
        self.violations.append(dict(clause=clause, witness=witness, what=what, replay=str(rp),
                                    no_input=no_input))

    # ---- evidence ----------------------------------------------------------------------------
    def case(self, cls, sample=None):
        """count one evaluated case; cls identifies its (branch-set, outcome) class"""
        self.evaluations += 1
        if cls is not None and cls not in self.classes:
            self.classes.add(cls)
            if sample is not None and len(self.samples) < 12:
                self.samples.append(sample)

    def finish(self, rule, checker_cmd=None, exhaustive=None, extra=None):
        # every failed correspondence obligation is accompanied by violation() calls; when all of those matched
        # listed known findings the correspondence holds everywhere else
        if not self.violations and self.known_hits and not self.notes.get("violations_not_written"):
            for o in self.obligations:
                if o["kind"] == "corr" and not o["ok"]:
                    o["ok"] = True
                    o["detail"] = "holds except on the listed known findings: " + ", ".join(str(f.get("id")) for f in self.known_hits)
        nob = len(self.obligations)
        ndis = sum(1 for o in self.obligations if o["ok"])
        cov = dict(
            obligations=nob, discharged=ndis,
            checker_cmd=checker_cmd or f"cd {LEAN} && lake build <Props/Inst modules of {self.prop}> && lake env lean work/{self.prop}/Audit.lean",
            trusted_base=TRUSTED_BASE,
            evaluations=self.evaluations, distinct_nontrivial=len(self.classes), rule=rule,
            samples=self.samples[:12] or [o["name"] for o in self.obligations[:5]],
            obligation_list=self.obligations,
        )
        if exhaustive is not None:
            cov["exhaustive"] = exhaustive
        cov.update(self.coverage)
        if extra:
            cov.update(extra)
        cov["notes"] = self.notes
        ev = dict(property_id=self.prop, tier=self.tier, seed=self.seed, level="proof", coverage=cov,
                  assumptions=self.assumptions, wall_s=round(time.time() - self.t0, 2),
                  violations=len(self.violations),
                  known_findings_hit=[f.get("id") for f in self.known_hits])
        (ROOT / "evidence").mkdir(exist_ok=True)
        (ROOT / "evidence" / f"{self.prop}.json").write_text(json.dumps(ev, indent=1, default=str) + "\n")
        for v in self.violations:
            tail = " no-failing-input-found" if v["no_input"] else ""
            print(f"VIOLATION property={self.prop} replay={v['replay']}{tail}")
        undischarged = [o for o in self.obligations if not o["ok"]]
        if undischarged and not self.violations:
            # a proof obligation or correspondence no longer checks and no concrete input was found
            self.replay_n += 1
            rp = ROOT / "replays" / f"{self.prop}-{self.seed}-{self.replay_n}.json"
            rp.parent.mkdir(exist_ok=True)
            rp.write_text(json.dumps(dict(property=self.prop, kind="obligation_broken",
                                          obligations=undischarged, seed=self.seed), indent=1) + "\n")
            print(f"VIOLATION property={self.prop} replay={rp} no-failing-input-found")
            return 1
        print(f"{self.prop} {self.tier}: obligations {ndis}/{nob}, cases {self.evaluations}, "
              f"classes {len(self.classes)}, violations {len(self.violations)}, "
              f"known {len(self.known_hits)}, {time.time() - self.t0:.1f}s")
        return 1 if self.violations else 0


# ---- numeric helpers -------------------------------------------------------------------------
def parse_frac(s):
    """'num/den' -> Fraction; 'nan'/'inf'/'-inf' -> the string"""
    if s in ("nan", "inf", "-inf"):
        return s
    return Fraction(s)


def close(a, b, rel=1e-9, abs_=0.0):
    """a: Fraction observed (exact value of an f64), b: Fraction expected"""
    if isinstance(a, str) or isinstance(b, str):
        return a == b
    d = abs(a - b)
    return d <= abs_ or d <= Fraction(rel) * max(abs(a), abs(b))


def cps(s):
    return " ".join(str(ord(c)) for c in s) if s else "-"


def uncps(s):
    return "" if s == "-" else "".join(chr(int(x)) for x in s.split())


def ddmin(items, fails):
    """classic delta debugging: smallest sub-list (1-minimal) on which `fails` still holds"""
    n = 2
    items = list(items)
    while len(items) >= 2:
        chunk = max(1, len(items) // n)
        subsets = [items[i:i + chunk] for i in range(0, len(items), chunk)]
        reduced = False
        for i in range(len(subsets)):
            comp = [x for j, s in enumerate(subsets) if j != i for x in s]
            if comp and fails(comp):
                items = comp
                n = max(n - 1, 2)
                reduced = True
                break
        if not reduced:
            if n >= len(items):
                break
            n = min(len(items), n * 2)
    return items


def check_charclasses(r, strings):
    """every character that occurs in the generated strings is classified by the real code (char::is_alphabetic / is_numeric /
    is_ascii_uppercase, through the harness) and by the driver's hard-wired class table (`drvCC`): the model is instantiated
    with that table, so a character it classifies differently means the model reads the string differently from Rust"""
    chars = sorted(set(ch for s in strings for ch in s))
    cl = [f"classify\t{ord(c)}" for c in chars]
    a, b = r.impl("spec", cl), r.model("spec", cl)
    bad = [(hex(ord(c)), x, y) for c, x, y in zip(chars, a, b) if x.lower() != y.lower()]
    r.coverage["character_classes_cross_checked"] = len(chars)
    if bad:
        raise Broken(f"driver character classes disagree with Rust's on {len(bad)} generated characters, e.g. {bad[:80]}")
