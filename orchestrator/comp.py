"""Composition machine (shared by C02, C04, C06): case generation, both interpreters, comparison,
attribution of each disagreement to the property whose observable it is, shrinking."""
import itertools
import re
import random

from .common import Run, ddmin

FORMS = ["vec", "map", "evec", "emap"]
KEYS = ["H:0", "C:0", "C:13", "C:12", "O:0", "O:18", "Cl:37", "Cl:0", "Fe:0", "Fe:54", "e*:0", "Uuh:0"]
GOOD_STR = ["C", "H", "O", "C[13]", "O[18]", "Cl[37]", "Fe", "e*", "Cl", "Uuh", "Fe[54]"]
BAD_STR = ["C[14]", "Xx", "", "C[", "é", "C[13]x", "[13]", "c", "C[13", "C]", "C[+13]", "Cé", "²", "C[x]",
           "C[99999]", "中[1]", "H+", "ab]", "a[1]"]
LIMIT = 1 << 28


def sarg(s):
    return ",".join(str(ord(c)) for c in s) if s else "-"


def all_table_keys():
    """every (symbol, isotope) key of the regenerated table as `Sym:iso`"""
    import json
    from .common import WORK
    out = []
    try:
        rows = [json.loads(l) for l in (WORK / "dump.jsonl").read_text().splitlines() if l.strip()]
    except OSError:
        return list(KEYS)
    for x in rows:
        if x["table"] == "global":
            out.append(f"{x['symbol']}:0")
            out += [f"{x['symbol']}:{i['key']}" for i in x["isotopes"] if i["key"] != 0]
    return out


class Gen:
    """sequence generator tracking a bound on |count| per register so that no i32 overflow occurs"""

    def __init__(self, rng, nregs=3, keys=None, variant=False):
        self.keys = keys or KEYS
        self.variant = variant    # keys of caller-made variant elements (`Sym:iso~3`) take part: key-typed operations only
        self.rng = rng
        self.n = nregs
        self.bound = [0] * nregs
        self.form = ["vec"] * nregs
        self.ops = []

    def emit(self, op, r=None, newbound=None):
        if newbound is not None:
            if newbound > LIMIT:
                return False
            self.bound[r] = newbound
        self.ops.append(op)
        return True

    def start(self, forms):
        for i, f in enumerate(forms):
            self.form[i] = f
            self.emit(f"new {i} {f}")

    def random_op(self, allow_conv=True, allow_gsm=True, allow_bad_write=False):
        g = self.rng
        r = g.randrange(self.n)
        k = g.choice(self.keys)
        v = g.randint(-50, 50)
        if g.random() < 0.15:
            v = g.choice([0, 1, -1])
        if g.random() < 0.06 and v != 0 and self.bound[r] + 2 * abs(v) <= LIMIT and not self.variant:
            # a count that goes up and comes back to exactly where it was (an explicit zero entry if it was absent)
            a, b2 = g.sample(["inc", "iadd", "sadd"], 2) if k.endswith(":0") and k.split(":")[0].isalpha() else g.sample(["inc", "iadd"], 2)
            for name, val in ((a, v), (b2, -v)):
                arg = sarg(k.split(":")[0]) if name == "sadd" else k
                self.emit(f"{name} {r} {arg} {val}", r, self.bound[r] + abs(val))
            return True
        kind = g.choices(
            ["set", "inc", "iset", "iadd", "sset", "sadd", "incs", "gsm", "fmass", "mul", "muli", "neg",
             "add", "sub", "addi", "subi", "itm", "clone", "conv", "fromkv", "get", "idx", "gets", "sidx",
             "eq", "new"],
            [6, 8, 4, 4, 3, 3, 4, 2, 12, 3, 4, 3, 6, 6, 5, 5, 3, 3, 4, 3, 3, 3, 4, 5, 5, 1])[0]
        b = self.bound
        if self.variant and kind in ("sset", "sadd", "incs", "gsm"):
            # which of two same-symbol keys a string *write* reaches is not something the properties say
            kind = g.choice(["set", "inc", "iset", "iadd"])
        if kind in ("set", "iset"):
            return self.emit(f"{kind} {r} {k} {v}", r, max(b[r], abs(v)))
        if kind in ("inc", "iadd"):
            return self.emit(f"{kind} {r} {k} {v}", r, b[r] + abs(v))
        if kind in ("sset", "sadd", "incs", "gsm"):
            if kind == "gsm" and not allow_gsm:
                return False
            s = g.choice(GOOD_STR if kind != "gsm" else GOOD_STR + ["Xx", "C[13]"])
            if allow_bad_write and kind != "gsm" and g.random() < 0.05:
                s = g.choice(BAD_STR)
            nb = max(b[r], abs(v)) if kind in ("sset", "gsm") else b[r] + abs(v)
            return self.emit(f"{kind} {r} {sarg(s)} {v}", r, nb)
        if kind == "fmass":
            return self.emit(f"fmass {r}")
        if kind in ("mul", "muli"):
            n = g.choice([-3, -1, 0, 1, 2, 7])
            if kind == "mul":
                d, a = g.randrange(self.n), r
                ok = self.emit(f"mul {d} {a} {n} {g.choice(['ref', 'val'])}", d, b[a] * abs(n))
                if ok:
                    self.form[d] = self.form[a]
                return ok
            return self.emit(f"muli {r} {n} {g.choice(['own', 'mut'])}", r, b[r] * abs(n))
        if kind == "neg":
            d = g.randrange(self.n)
            ok = self.emit(f"neg {d} {r} {g.choice(['ref', 'val'])}", d, b[r])
            if ok:
                self.form[d] = self.form[r]
            return ok
        if kind in ("add", "sub"):
            d, a, c = g.randrange(self.n), r, g.randrange(self.n)
            ok = self.emit(f"{kind} {d} {a} {c} {g.choice(['ref', 'val'])}", d, b[a] + b[c])
            if ok:
                self.form[d] = self.form[a]
            return ok
        if kind in ("addi", "subi"):
            c = g.randrange(self.n)
            return self.emit(f"{kind} {r} {c} {g.choice(['own', 'mut'])}", r, b[r] + b[c])
        if kind == "itm":
            f = g.choice(["dbl", "neg", "inc1", "zero"])
            nb = {"dbl": 2 * b[r], "neg": b[r], "inc1": b[r] + 1, "zero": b[r]}[f]
            return self.emit(f"itm {r} {f}", r, nb)
        if kind == "clone":
            d = g.randrange(self.n)
            self.form[d] = self.form[r]
            return self.emit(f"clone {d} {r}", d, b[r])
        if kind == "conv":
            if not allow_conv:
                return False
            d, f = g.randrange(self.n), g.choice(FORMS)
            self.form[d] = f
            return self.emit(f"conv {d} {r} {f}", d, b[r])
        if kind == "fromkv":
            npairs = g.randrange(0, 6)
            ps = [(g.choice(KEYS[:6] if g.random() < 0.6 else KEYS), g.randint(-50, 50)) for _ in range(npairs)]
            variant = g.choice(["vecES", "iterES", "vecStr", "iterStr"])
            if self.variant:
                ps = [(g.choice(self.keys), v) for _, v in ps]
                variant = g.choice(["vecES", "iterES"])
            f = g.choice(FORMS) if allow_conv else self.form[r]
            self.form[r] = f
            txt = ",".join(f"{k}={v}" for k, v in ps) or "-"
            return self.emit(f"fromkv {r} {f} {variant} {txt}", r, sum(abs(v) for _, v in ps))
        if kind in ("get", "idx"):
            return self.emit(f"{kind} {r} {k}")
        if kind in ("gets", "sidx"):
            s = g.choice(GOOD_STR + BAD_STR)
            if self.variant:
                # a string read with a stock and a variant plain key of one symbol both present has no defined answer (the
                # map representation returns whichever its iteration meets first): none in random histories
                return self.emit(f"get {r} {k}")
            return self.emit(f"{kind} {r} {sarg(s)}")
        if kind == "eq":
            d = g.randrange(self.n)
            if d != r and g.random() < 0.6:
                # make d a near-copy of r, then disturb which keys are present / zero
                if allow_conv and g.random() < 0.5:
                    # ... in ANOTHER representation: equality across representations, both directions, before and after
                    f2 = g.choice([f for f in FORMS if f != self.form[r]])
                    self.form[d] = f2
                    self.emit(f"conv {d} {r} {f2}", d, b[r])
                    self.emit(f"eq {r} {d}")
                    self.emit(f"eq {d} {r}")
                else:
                    self.form[d] = self.form[r]
                    self.emit(f"clone {d} {r}", d, b[r])
                k2, k3 = g.sample(self.keys if self.variant else KEYS, 2)
                choice = g.randrange(4)
                if choice == 0:
                    self.emit(f"set {d} {k2} 0", d, b[d])
                    self.emit(f"set {r} {k3} 0", r, b[r])
                elif choice == 1:
                    self.emit(f"set {d} {k2} 0", d, b[d])
                elif choice == 2:
                    self.emit(f"iadd {d} {k2} 1", d, b[d] + 1)
                    self.emit(f"iadd {d} {k2} -1", d, b[d] + 1)
                    self.emit(f"set {r} {k3} 0", r, b[r])
                self.emit(f"eq {r} {d}")
                return self.emit(f"eq {d} {r}")
            return self.emit(f"eq {r} {d}")
        if kind == "new":
            f = g.choice(FORMS) if allow_conv else self.form[r]
            self.form[r] = f
            return self.emit(f"new {r} {f}", r, 0)
        return False


def render_uniform(ops, form):
    """the same history with every register in one representation"""
    out = []
    for op in ops:
        w = op.split()
        if w[0] == "new":
            w[2] = form
        elif w[0] == "fromkv":
            w[2] = form
        out.append(" ".join(w))
    return out


def gen_cases(seed, tier):
    rng = random.Random(seed)
    cases = []   # dict(kind, ops, group)
    # 1. corpus of minimal past disagreements / defect witnesses (run first)
    corpus = [
        "new 0 vec;set 0 H:0 2;fmass 0;muli 0 2 own;fmass 0",
        "new 0 map;set 0 H:0 2;fmass 0;muli 0 2 mut;fmass 0",
        "new 0 evec;set 0 O:0 1;fmass 0;itm 0 dbl;fmass 0",
        "new 0 map;set 0 O:0 1;fmass 0;mul 1 0 3 ref;fmass 1;neg 2 0 val;fmass 2",
        "fromkv 0 vec vecES H:0=1,H:0=2;get 0 H:0",
        "new 0 map;idx 0 C:0",
        "new 0 map;set 0 C:13 5;gets 0 67;sidx 0 67;incs 0 67 1;gsm 0 67 9",
        "new 0 evec;set 0 C:13 5;gets 0 67,91,49,51,93;conv 1 0 emap;gets 1 67,91,49,51,93",
        "new 0 vec;set 0 H:0 0;set 0 O:0 0;new 1 vec;set 1 C:0 0;set 1 O:0 0;eq 0 1;conv 2 0 map;conv 1 1 map;eq 2 1",
        "new 0 vec;sidx 0 233;sidx 0 67,91,120,93;sidx 0 67,91,57,57,57,57,57,93;sidx 0 233,91,49,93",
        "new 0 vec;set 0 C:0 1;new 1 map;set 1 C:13 2;set 1 C:0 4;sub 2 0 1 ref;addi 0 1 own;subi 1 0 mut",
    ]
    corpus += [
        # different compositions with the same length and bit-identical masses (an element and its most abundant isotope
        # fixed; Bk / Cm at 247.0): no shortcut may take "same size, same mass" for "same contents"
        "new 0 vec;set 0 H:0 2;set 0 O:0 1;new 1 vec;set 1 H:1 2;set 1 O:0 1;fmass 0;fmass 1;sub 2 0 1 ref;subi 0 1 own;get 0 H:0;get 0 H:1;eq 0 1;add 2 1 0 val",
        "new 0 vec;set 0 Bk:0 3;new 1 vec;set 1 Cm:0 3;fmass 0;fmass 1;eq 0 1;sub 2 0 1 ref;addi 0 1 own;subi 1 0 mut;get 1 Bk:0;get 1 Cm:0",
        "new 0 vec;set 0 C:12 6;set 0 O:16 1;new 1 vec;set 1 C:0 6;set 1 O:0 1;fmass 0;fmass 1;eq 0 1;eq 1 0;subi 0 1 own;fmass 0",
        # equality probes: same length, zero counts, different keys; asymmetric presence
        "new 0 vec;new 1 vec;set 0 C:0 2;set 0 O:0 1;iadd 0 O:0 -1;set 1 C:0 2;set 1 Cl:0 1;eq 0 1;eq 1 0",
        "new 0 vec;new 1 vec;set 0 C:0 2;set 0 O:0 0;set 1 C:0 2;set 1 O:18 0;eq 0 1;eq 1 0;set 1 O:0 0;eq 0 1",
        "new 0 vec;new 1 vec;set 0 C:13 1;set 0 C:0 6;set 0 H:0 12;gets 0 67;sidx 0 67;incs 0 67 -1;gets 0 67;set 1 C:0 5;set 1 C:13 1;set 1 H:0 12;eq 0 1",
    ]
    corpus += [
        # counts past 2^24 (odd ones are not representable in single precision): the mass is count * mass in double precision
        "new 0 vec;set 0 C:0 16777217;fmass 0;set 0 H:0 33554433;fmass 0;fromkv 1 vec iterES O:18=16777219,C:13=20000001;fmass 1;add 2 0 1 ref;fmass 2;muli 1 -1 own;fmass 1",
        "new 0 vec;set 0 H:0 50000001;fmass 0;iadd 0 H:0 -33222784;fmass 0;inc 0 C:12 16777217;fmass 0",
    ]
    corpus += [
        # results exactly ON the ends of the count's type (i32::MIN has no positive twin): products, sums and differences that
        # are representable must be exact (one light key per composition: the masses stay below 2^53 micro-units and do not
        # depend on a summation order)
        "new 0 vec;set 0 H:0 -1073741824;muli 0 2 own;get 0 H:0;fmass 0;new 1 vec;set 1 H:0 1073741823;muli 1 2 mut;get 1 H:0;iadd 1 H:0 1;get 1 H:0",
        "new 0 vec;set 0 H:0 1;mul 1 0 -2147483648 ref;get 1 H:0;mul 2 0 2147483647 val;get 2 H:0;fmass 1;fmass 2",
        "new 0 vec;set 0 H:0 -2147483648;muli 0 1 mut;get 0 H:0;mul 1 0 1 ref;get 1 H:0;set 0 H:0 2147483647;neg 2 0 ref;get 2 H:0;muli 0 -1 own;get 0 H:0",
        "new 0 vec;new 1 vec;set 0 H:0 -1073741824;set 1 H:0 -1073741824;add 2 0 1 ref;get 2 H:0;set 1 H:0 1073741824;subi 0 1 own;get 0 H:0;"
        "inc 0 H:0 2147483647;get 0 H:0;inc 0 H:0 2147483647;get 0 H:0;iadd 0 H:0 1;get 0 H:0;fmass 0",
        # D32 (known finding): pair lists whose running total for a key leaves i32 while the total fits
        "new 0 vec;fromkv 0 vec iterES H:0=2147483647,H:0=1,H:0=-5;get 0 H:0",
        # D31 (fixed): subtracting a count of i32::MIN where the difference fits (the code added the negated count)
        "new 0 vec;new 1 vec;set 0 H:0 -5;set 1 H:0 -2147483648;sub 2 0 1 ref;get 2 H:0;sub 2 0 1 val;get 2 H:0;subi 0 1 own;get 0 H:0;set 0 H:0 -1;subi 0 1 mut;get 0 H:0",
        "new 0 vec;set 0 H:0 -715827882;muli 0 3 own;get 0 H:0;set 0 H:0 -536870912;muli 0 4 mut;get 0 H:0;set 0 H:0 65536;mul 1 0 -32768 ref;get 1 H:0",
    ]
    for i, c in enumerate(corpus):
        ops = c.split(";")
        cases.append(dict(kind="corpus", ops=ops, group=f"corpus{i}", nregs=3))
        if not any(o.split()[0] in ("conv", "gsm") for o in ops):
            for f in FORMS:
                cases.append(dict(kind="lockstep", form=f, ops=render_uniform(ops, f), group=f"corpusL{i}", nregs=3))
    # 2. exhaustive short histories over a reduced alphabet, in lock-step on the four forms
    alphabet = ["set 0 C:0 2", "inc 0 C:13 3", "iadd 0 C:0 -2", "sset 0 67 5", "incs 0 67,91,49,51,93 1",
                "fmass 0", "fmass 1", "muli 0 -1 own", "itm 0 zero", "mul 1 0 2 ref", "neg 1 0 ref",
                "add 1 0 1 val", "subi 0 1 own", "addi 1 0 mut", "clone 1 0", "fromkv 1 vec iterES C:0=1,C:0=2,O:18=1",
                "set 1 O:18 0", "eq 0 1", "sidx 0 67", "gets 0 67"]
    depth = 3 if tier == "thorough" else 2
    gid = 0
    for L in range(1, depth + 1):
        for combo in itertools.product(alphabet, repeat=L):
            ops = ["new 0 vec", "new 1 vec"] + list(combo) + ["fmass 0", "fmass 1"]
            gid += 1
            for f in FORMS:
                cases.append(dict(kind="lockstep", form=f, ops=render_uniform(ops, f), group=f"ex{gid}", nregs=2))
    # 2b. sizes named by new literals of the changed code (a representation switch at 8 entries, a capacity of 16, ...):
    #     compositions with d-1, d, d+1 distinct keys, then an increment of a present key, of a new key, and arithmetic
    from . import common as _c
    tk = all_table_keys()
    for d in _c.dict_ints(3, min(400, len(tk))):
        keys_d = rng.sample(tk, d)
        kv = ",".join(f"{k}={rng.randint(1, 9)}" for k in keys_d)
        extra = next(k for k in tk if k not in keys_d)
        ops = ["new 0 vec", "new 1 vec", f"fromkv 0 vec iterES {kv}", f"fromkv 1 vec vecES {kv}", "fmass 0",
               f"inc 0 {keys_d[0]} 5", f"inc 0 {extra} 2", f"iadd 1 {keys_d[-1]} 3", "add 2 0 1 ref", "sub 2 0 1 val", "addi 0 1 own",
               f"get 0 {keys_d[0]}", f"get 0 {extra}", "fmass 0", "fmass 1", "fmass 2", "eq 0 1"]
        gid += 1
        for f in FORMS:
            cases.append(dict(kind="lockstep", form=f, ops=render_uniform(ops, f), group=f"dict{gid}", nregs=3))
    # 2c'. two keys out of hundreds: every pair of keys that share their isotope number (isobars) or their symbol, in one
    #      composition — set one, increment the other, read both
    tkeys = all_table_keys()
    groups_ = {}
    for k in tkeys:
        sym, iso = k.rsplit(":", 1)
        groups_.setdefault(("sym", sym), []).append(k)
        if iso != "0":
            groups_.setdefault(("iso", iso), []).append(k)
    npair = 0
    for (kind_, _), ks in sorted(groups_.items()):
        for a in range(len(ks)):
            for b in range(a + 1, len(ks)):
                npair += 1
                if tier != "thorough" and npair % 3:
                    continue
                ops = ["new 0 vec", f"set 0 {ks[a]} 2", f"inc 0 {ks[b]} 3", f"get 0 {ks[a]}", f"get 0 {ks[b]}", "fmass 0",
                       f"iadd 0 {ks[a]} 1", f"get 0 {ks[b]}", "fmass 0"]
                gid += 1
                for f in (FORMS if npair % 2 else FORMS[:2]):
                    cases.append(dict(kind="lockstep" if npair % 2 else "pairs", form=f, ops=render_uniform(ops, f), group=f"pair{gid}", nregs=1))
    # 2c. the same entries inserted in two different orders, both masses cached, then compared (equality must not look at
    #     anything that depends on the order — e.g. a floating-point sum); and string constructors that name one key by two
    #     spellings (`C[13]`, `C[013]`)
    for _ in range(300 if tier == "thorough" else 60):
        ks = rng.sample(KEYS[:10] + ["N:0", "S:0", "P:0", "Na:0"], rng.randint(2, 5))
        ps = [(k, rng.choice([1, 2, 3, 5, 6, 7, 9, 11])) for k in ks]
        a = ",".join(f"{k}={v}" for k, v in ps)
        b = ",".join(f"{k}={v}" for k, v in reversed(ps))
        ops = ["new 0 vec", "new 1 vec", f"fromkv 0 vec iterES {a}", f"fromkv 1 vec iterES {b}", "fmass 0", "fmass 1", "eq 0 1", "eq 1 0",
               "clone 2 0", "eq 2 1", f"set 1 {ks[0]} {ps[0][1]}", "eq 0 1"]
        gid += 1
        for f in FORMS:
            cases.append(dict(kind="lockstep", form=f, ops=render_uniform(ops, f), group=f"perm{gid}", nregs=3))
    for _ in range(80 if tier == "thorough" else 20):
        iso_keys = ["C:13", "O:18", "Cl:37", "Fe:54", "C:12", "H:2"]
        ps = [(rng.choice(iso_keys), rng.randint(1, 9)) for _ in range(rng.randint(2, 5))]
        txt = ",".join(f"{k}={v}" for k, v in ps)
        ops = ["new 0 vec", f"fromkv 0 vec {rng.choice(['vecStrAlias', 'iterStrAlias'])} {txt}"] + [f"get 0 {k}" for k in sorted(set(k for k, _ in ps))] + ["fmass 0"]
        gid += 1
        for f in FORMS:
            cases.append(dict(kind="lockstep", form=f, ops=render_uniform(ops, f), group=f"alias{gid}", nregs=1))
    # 3. random long histories: lock-step groups and mixed-representation ones; one in eight draws its keys from a
    #    pool of 70 keys of the whole table, so that compositions grow past 8, 16, 32, 64 entries (growth of the
    #    vector, resizes of the hash table, any size-triggered switch of representation)
    nrand = 6000 if tier == "thorough" else 500
    table_keys = all_table_keys()
    for i in range(nrand):
        wide = i % 8 == 5
        g = Gen(rng, 3, keys=rng.sample(table_keys, min(70, len(table_keys))) if wide else None)
        lock = i % 2 == 0
        g.start(["vec"] * 3 if lock else [rng.choice(FORMS) for _ in range(3)])
        # populate the registers first so that most operations act on non-empty compositions
        for reg in range(3):
            if rng.random() < 0.8:
                ps = [(rng.choice(g.keys), rng.randint(-50, 50)) for _ in range(rng.randint(20, 70) if wide else rng.randint(1, 5))]
                f = g.form[reg]
                g.emit("fromkv %d %s %s %s" % (reg, f, rng.choice(["vecES", "iterES", "vecStr", "iterStr"]),
                                                ",".join(f"{k}={v}" for k, v in ps)), reg, sum(abs(v) for _, v in ps))
        target = rng.randint(8, 40)
        tries = 0
        while len(g.ops) < target and tries < 400:
            tries += 1
            # cache-populating call before a mutator, half of the time
            if rng.random() < 0.35:
                g.emit(f"fmass {rng.randrange(3)}")
            g.random_op(allow_conv=not lock, allow_gsm=not lock, allow_bad_write=not lock)
        for r in range(3):
            g.emit(f"fmass {r}")
        if lock:
            for f in FORMS:
                cases.append(dict(kind="lockstep", form=f, ops=render_uniform(g.ops, f), group=f"rnd{i}", nregs=3))
        else:
            cases.append(dict(kind="mixed", ops=g.ops, group=f"rnd{i}", nregs=3))
    # 4. caller-made elements: keys whose element is a *variant* of a stock element (same symbol and isotopes, another most
    #    abundant isotope — enriched material).  `Element::eq` holds them apart from the stock element, so `C:0` and `C:0~3`
    #    are two keys with one symbol text, one isotope number and one hash; every key-typed operation must keep them apart.
    vkeys = ["C:0", "C:0~3", "C:13", "C:13~3", "H:0", "H:0~3", "O:0", "O:0~3", "O:18", "Cl:0~3", "Cl:0", "Fe:0~3", "N:0"]
    vcorpus = [
        "new 0 vec;set 0 C:0 2;inc 0 C:0~3 3;get 0 C:0;get 0 C:0~3;fmass 0;iadd 0 C:0 1;get 0 C:0~3;fmass 0",
        "new 0 vec;new 1 vec;set 0 C:0~3 4;set 1 C:0 5;add 2 0 1 ref;get 2 C:0;get 2 C:0~3;sub 2 1 0 val;addi 0 1 own;get 0 C:0;fmass 0;eq 0 1",
        "new 0 vec;fromkv 0 vec iterES C:0=1,C:0~3=2,C:0=4,C:0~3=8;get 0 C:0;get 0 C:0~3;fmass 0",
        "new 0 vec;new 1 vec;set 0 H:0~3 2;set 1 H:0 2;eq 0 1;eq 1 0;fmass 0;fmass 1;get 0 H:0;get 1 H:0~3;gets 0 72;gets 1 72",
        "new 0 vec;set 0 O:0~3 1;gets 0 79;sidx 0 79;get 0 O:0;idx 0 O:0;get 0 O:0~3",
    ]
    for j, ctext in enumerate(vcorpus):
        for f in FORMS:
            cases.append(dict(kind="lockstep", form=f, ops=render_uniform(ctext.split(";"), f), group=f"varc{j}", nregs=3, variant=True))
    # string reads where they are determined: one plain key per symbol, stock or variant — the answer is its count
    vsyms = ["C", "H", "O", "N", "Cl", "Fe", "S", "Ca", "Se", "Sn"]
    for i in range(200 if tier == "thorough" else 40):
        chosen = rng.sample(vsyms, rng.randint(1, 5))
        held = {sy: (rng.random() < 0.6, rng.randint(-9, 30)) for sy in chosen}
        ops = ["new 0 vec"] + [f"{rng.choice(['set', 'inc', 'iadd'])} 0 {sy}:0{'~3' if var else ''} {v}" for sy, (var, v) in held.items()]
        if rng.random() < 0.5:
            ops.append("fmass 0")
        reads = {}
        for sy in rng.sample(vsyms, len(vsyms)):
            for kind_ in ("gets", "sidx"):
                reads[len(ops)] = held.get(sy, (False, 0))[1]
                ops.append(f"{kind_} 0 {sarg(sy)}")
        for f in FORMS:
            cases.append(dict(kind="lockstep", form=f, ops=render_uniform(ops, f), group=f"vtext{i}", nregs=1, variant=True, text_reads=reads))
    for i in range(800 if tier == "thorough" else 120):
        g = Gen(rng, 3, keys=vkeys, variant=True)
        lock = i % 4 != 0
        g.start(["vec"] * 3 if lock else [rng.choice(FORMS) for _ in range(3)])
        for reg in range(3):
            if rng.random() < 0.8:
                ps = [(rng.choice(vkeys), rng.randint(-50, 50)) for _ in range(rng.randint(1, 6))]
                g.emit("fromkv %d %s %s %s" % (reg, g.form[reg], rng.choice(["vecES", "iterES"]), ",".join(f"{k}={v}" for k, v in ps)),
                       reg, sum(abs(v) for _, v in ps))
        target, tries = rng.randint(8, 30), 0
        while len(g.ops) < target and tries < 300:
            tries += 1
            if rng.random() < 0.3:
                g.emit(f"fmass {rng.randrange(3)}")
            g.random_op(allow_conv=not lock, allow_gsm=False, allow_bad_write=False)
        for r_ in range(3):
            g.emit(f"fmass {r_}")
        if lock:
            for f in FORMS:
                cases.append(dict(kind="lockstep", form=f, ops=render_uniform(g.ops, f), group=f"var{i}", nregs=3, variant=True))
        else:
            cases.append(dict(kind="mixed", ops=g.ops, group=f"var{i}", nregs=3, variant=True))
    return cases


TRAIT_OPS = {"set", "inc", "get", "fmass", "muli", "itm"}


def via_trait(op, idx):
    """a third of the applicable operations are dispatched through the public trait `ChemicalCompositionLike`
    on the real code (`op@t`); deterministic in (op text, position), so a recorded history replays exactly.
    The model has one function per operation: the trait methods are forwarders."""
    import zlib
    return op.split(" ", 1)[0] in TRAIT_OPS and zlib.crc32(f"{op}#{idx}".encode()) % 3 == 0


def case_line(c, impl=False):
    ops = c["ops"]
    if not impl:
        ops = [o.replace("StrAlias ", "Str ") for o in ops]   # the model has keys, not spellings
        # a variant element is another symbol in the model: `C:0~3` -> `C^3:0`
        ops = [re.sub(r"([A-Za-z*]+):(\d+)~3", r"\1^3:\2", o) for o in ops]
    if impl:
        import zlib
        ops = [(o.replace(" ", "@t ", 1) if via_trait(o, i) else o) for i, o in enumerate(ops)]
        # a quarter of the key-typed operations use a key made from a SECOND table instance with the same content (equal
        # keys, other `Element` objects — what mixing `ChemicalElements::new()` with the global table gives)
        KEYED = ("set ", "inc ", "iset ", "iadd ", "get ", "idx ", "set@t ", "inc@t ", "get@t ")

        def second(o, i):
            if o.startswith(KEYED) and "~" not in o and zlib.crc32(f"2#{o}#{i}".encode()) % 4 == 0:
                w = o.split(" ")
                w[2] = w[2] + "~2"
                return " ".join(w)
            return o
        ops = [second(o, i) for i, o in enumerate(ops)]
        # half of the clones go through `Clone::clone_from` into the live destination (the model has one clone)
        ops = [(o + " from" if o.startswith("clone ") and zlib.crc32(f"{o}#{i}".encode()) % 2 == 0 else o) for i, o in enumerate(ops)]
    return "comp\t%d\t%s" % (c["nregs"], ";".join(ops))


# ---- comparison --------------------------------------------------------------------------------
MUTATORS_C04 = {"add", "sub", "addi", "subi", "mul", "muli", "neg", "fromkv"}


def partial_sum_leaves_i32(pairs):
    """does the running total of some key leave i32 while every key's total fits?"""
    run, bad = {}, False
    for kv in pairs.split(","):
        if "=" not in kv:
            continue
        k, v = kv.rsplit("=", 1)
        run[k] = run.get(k, 0) + int(v)
        bad |= not (-2 ** 31 <= run[k] < 2 ** 31)
    return bad and all(-2 ** 31 <= t < 2 ** 31 for t in run.values())


def split_step(s):
    """'read#reg#reg' -> (read, [reg fields])"""
    parts = s.split("#")
    return parts[0], [p.split("|") for p in parts[1:]]


def compare_case(c, impl_line, model_line):
    """returns list of (property, clause, step_index, detail)"""
    issues = []
    if model_line in ("bad-op", "bad-line") or impl_line in ("bad-op", "bad-line"):
        return [("BROKEN", "protocol", -1, f"impl={impl_line[:80]} model={model_line[:80]}")]
    isteps = impl_line.split(";")
    msteps = model_line.split(";")
    if len(isteps) != len(msteps):
        return [("BROKEN", "protocol", -1, f"step counts differ {len(isteps)} vs {len(msteps)}")]
    for idx, (op, si, sm) in enumerate(zip(c["ops"], isteps, msteps)):
        w = op.split()
        if sm == "panic" or si == "panic":
            if sm != si and si == "panic" and w[0] == "fromkv" and partial_sum_leaves_i32(w[4]):
                # D32 (known finding): the constructors add the listed counts one by one in i32
                issues.append(("C04", "partial-sum-overflow", idx, f"op {op}: the running total of a key leaves i32 although its total fits; the constructor panics"))
                break
            if sm != si:
                # a panic of the real code where the model has none: which property depends on the op
                prop = "C06" if w[0] in ("gets", "sidx", "get", "idx", "eq") else "C04"
                issues.append((prop, "panic", idx, f"op {op}: impl={si[:40]} model={sm[:40]}"))
                break
            continue
        mm, ms = sm.split("~")
        iread, iregs = split_step(si)
        mread, mregs = split_step(mm)
        sread, sregs = split_step(ms)
        # reads
        if w[0] == "fmass":
            r = int(w[1])
            specmass = int(sregs[r][2])
            if abs(int(iread) - specmass) > 1:
                issues.append(("C02", "fmass", idx, f"fmass returned {iread}, mass of contents is {specmass}"))
            if iread != mread and abs(int(iread) - int(mread)) > 1:
                issues.append(("C02", "corr-fmass", idx, f"impl {iread} model {mread}"))
        elif iread != "null" or mread != "null":
            unspecified = w[0] == "gets" and "91" in w[2].split(",")
            # with a stock and a variant element of one symbol present, which of them a *string* names is not specified
            # (and not modelled): such reads are compared across the representations only (lock-step)
            by_text = c.get("variant") and w[0] in ("gets", "sidx")
            if not unspecified and not by_text and iread != sread:
                issues.append(("C06", "read-" + w[0], idx, f"{op}: impl {iread}, spec {sread}"))
            if by_text and idx in c.get("text_reads", {}) and iread != str(c["text_reads"][idx]):
                issues.append(("C06", "read-by-text-" + w[0], idx, f"{op}: impl {iread}, the one plain key of that symbol holds {c['text_reads'][idx]}"))
            if iread != mread and not by_text:
                issues.append(("C06", "corr-read-" + w[0], idx, f"{op}: impl {iread}, model {mread}"))
        for r, (ir, mr, sr) in enumerate(zip(iregs, mregs, sregs)):
            # ir: form|cached|mass|calc|len|ents ; mr adds specmass ; sr: len|ents|mass
            specmass = int(sr[2])
            for name, val in (("mass", ir[2]), ("calc_mass", ir[3])):
                try:
                    bad = abs(int(val) - specmass) > 1
                except ValueError:
                    bad = True
                if bad and ir[5] == sr[1]:
                    issues.append(("C02", name, idx, f"after {op}: r{r}.{name}()={val} but contents {ir[5]} weigh {specmass}"))
            if ir[5] != sr[1] or ir[4] != sr[0]:
                prop = "C04" if w[0] in MUTATORS_C04 else "C06"
                clause = "entries-" + w[0]
                if w[0] in MUTATORS_C04 and r != int(w[1]):
                    clause = "operand-modified-" + w[0]
                issues.append((prop, clause, idx, f"after {op}: r{r} holds {ir[5]} (len {ir[4]}), spec {sr[1]} (len {sr[0]})"))
            if ir[0] != mr[0] or ir[1] != mr[1] or ir[4] != mr[4] or ir[5] != mr[5]:
                issues.append(("C06" if ir[1] == mr[1] else "C02", "corr-state", idx,
                               f"after {op}: r{r} impl {'|'.join(ir)} model {'|'.join(mr[:6])}"))
            # model vs spec sanity (guaranteed by the theorems): a failure is a bug in the driver
            if mr[5] != sr[1] or mr[6] != sr[2]:
                issues.append(("BROKEN", "model-vs-spec", idx, f"after {op}: model {mr[5]} spec {sr[1]}"))
        if issues:
            break
    return issues


def lockstep_issues(group_cases, impl_lines):
    """C06: the four uniform renderings of one history must be indistinguishable"""
    issues = []
    by_form = {c["form"]: l for c, l in zip(group_cases, impl_lines)}

    def strip(line, keep_gets):
        out = []
        for op, s in zip(group_cases[0]["ops"], line.split(";")):
            if s == "panic":
                out.append(s)
                continue
            read, regs = split_step(s)
            if op.split()[0] == "gets" and not keep_gets:
                read = "*"
            # (the Display text goes through string lookups: with a stock and a variant key of one symbol it is not defined)
            out.append((read, tuple(tuple(r[1:6] if group_cases[0].get("variant") else r[1:]) for r in regs)))
        return out
    base = strip(by_form["vec"], False)
    for f in ("map", "evec", "emap"):
        other = strip(by_form[f], False)
        if other != base:
            i = next((j for j, (a, b) in enumerate(zip(base, other)) if a != b), 0)
            issues.append(("C06", "lockstep", i, f"vec vs {f} differ at step {i} ({group_cases[0]['ops'][i]}): {base[i]} vs {other[i]}"))
    for a, b in (("vec", "map"), ("evec", "emap")):
        if strip(by_form[a], True) != strip(by_form[b], True):
            issues.append(("C06", "lockstep-get_str", 0, f"{a} vs {b} get_str differ"))
    return issues


def classify(c):
    kinds = tuple(sorted(set(op.split()[0] for op in c["ops"])))
    return (c.get("form", "mixed"), kinds)


def run_all(r: Run, prop):
    cases = gen_cases(r.seed, r.tier)
    lines = [case_line(c) for c in cases]
    impl = r.impl("comp", [case_line(c, impl=True) for c in cases])
    model = r.model("comp", lines)
    found = {}     # (property, clause) -> first (case, idx, detail)
    others = 0
    histogram = {}
    for c, il, ml in zip(cases, impl, model):
        r.case(classify(c), {"ops": c["ops"][:12], "impl": il[:200]})
        for op in c["ops"]:
            k = op.split()[0]
            histogram[k] = histogram.get(k, 0) + 1
        for iss in compare_case(c, il, ml):
            found.setdefault((iss[0], iss[1]), (c, iss[2], iss[3]))
    # lock-step groups
    groups = {}
    for c, il in zip(cases, impl):
        if c["kind"] == "lockstep":
            groups.setdefault(c["group"], []).append((c, il))
    for g, items in groups.items():
        if len(items) == 4:
            for iss in lockstep_issues([x[0] for x in items], [x[1] for x in items]):
                found.setdefault((iss[0], iss[1]), (items[0][0], iss[2], iss[3]))
    r.coverage["op_histogram"] = histogram
    r.coverage["cases_by_kind"] = {k: sum(1 for c in cases if c["kind"] == k) for k in ("corpus", "lockstep", "mixed")}
    corr_ok = True
    for (p, clause), (c, idx, detail) in sorted(found.items(), key=lambda kv: kv[0]):
        if p == "BROKEN":
            from .common import Broken
            raise Broken(f"{clause}: {detail}")
        if p != prop:
            others += 1
            continue
        corr_ok = False
        ops = shrink(r, c, p, clause)
        if ops != c["ops"]:
            cc2 = dict(c, ops=ops)
            il = r.impl("comp", [case_line(cc2, impl=True)])[0]
            ml = r.model("comp", [case_line(cc2)])[0]
            for iss in compare_case(cc2, il, ml):
                if iss[0] == p and iss[1] == clause:
                    detail = iss[3]
        kinds = sorted(set(o.split()[0] for o in ops))
        witness = {"clause_kind": clause.split("-")[0], "ops": kinds}
        is_corr = clause.startswith("corr")
        r.violation(clause, witness, detail, expected="see 'what' (spec value)", observed={"history": ops},
                    kind="corr_broken" if is_corr else "impl_vs_spec", no_input=False)
    r.coverage["disagreements_attributed_to_other_properties"] = others
    r.oblige(f"correspondence: harness and model agree on every {prop} observable of every generated history",
             "corr", corr_ok)
    return cases


def shrink(r, c, prop, clause):
    def fails(ops):
        cc = dict(c, ops=ops)
        il = r.impl("comp", [case_line(cc, impl=True)])[0]
        ml = r.model("comp", [case_line(cc)])[0]
        return any(i[0] == prop and i[1] == clause for i in compare_case(cc, il, ml))
    if (c["kind"] == "lockstep" and clause.startswith("lockstep")) or clause.startswith("read-by-text"):
        return c["ops"]
    try:
        if not fails(c["ops"]):
            return c["ops"]
        return ddmin(c["ops"], fails)
    except Exception:
        return c["ops"]
