"""Formula parser and formula text (C01, C05, C07): generators, both interpreters, oracle comparison."""
import itertools
import json
import random

from .common import Run, Broken, WORK, ddmin

CLASS_ALPHABET = ["C", "H", "l", "X", "1", "0", "9", "[", "]", "(", ")", " ", "+", "-", "é", "²", "中", "\x00"]
I32MAX = 2147483647


def cps(s):
    return " ".join(str(ord(c)) for c in s) if s else "-"


def table_keys():
    rows = [json.loads(l) for l in (WORK / "dump.jsonl").read_text().splitlines() if l.strip()]
    out = {}
    for x in rows:
        if x["table"] == "global":
            out[x["symbol"]] = [i["key"] for i in x["isotopes"] if i["key"] != 0]
    return out


def render_count(c):
    return "" if c is None else str(c)


class AstGen:
    def __init__(self, rng, keys):
        self.rng = rng
        self.syms = [s for s in keys if s[0].isupper()]
        self.keys = keys
        self.common = ["C", "H", "O", "N", "S", "Cl", "Fe", "Br", "Na", "H+", "Uuh", "U", "K", "Si"]

    def count(self, small=False):
        r = self.rng
        x = r.random()
        if x < 0.35:
            return None
        if small:
            return r.choice([1, 2, 3, 10])
        return r.choice([1, 2, 3, 7, 10, 12, 100, 999, 1000, 65536])

    def elem(self):
        r = self.rng
        sym = r.choice(self.common if r.random() < 0.7 else self.syms)
        iso = None
        if self.keys[sym] and r.random() < 0.35:
            iso = r.choice(self.keys[sym])
        return ("e", sym, iso, self.count())

    def terms(self, depth, budget):
        r = self.rng
        n = r.randint(1, 4)
        out = []
        for _ in range(n):
            if depth > 0 and r.random() < 0.35:
                out.append(("g", self.terms(depth - 1, budget), self.count(small=True)))
            else:
                out.append(self.elem())
        return out


def render(ts):
    s = ""
    for t in ts:
        if t[0] == "e":
            s += t[1] + (f"[{t[2]}]" if t[2] is not None else "") + render_count(t[3])
        else:
            s += "(" + render(t[1]) + ")" + render_count(t[2])
    return s


def denote(ts, mult=1, acc=None):
    acc = {} if acc is None else acc
    for t in ts:
        if t[0] == "e":
            k = (t[1], t[2] or 0)
            acc[k] = acc.get(k, 0) + mult * (1 if t[3] is None else t[3])
        else:
            denote(t[1], mult * (1 if t[2] is None else t[2]), acc)
    return acc


def max_abs(ts, mult=1):
    m = 0
    for t in ts:
        if t[0] == "e":
            m += mult * (1 if t[3] is None else t[3])
        else:
            m += max_abs(t[1], mult * (1 if t[2] is None else t[2]))
    return m


def well_formed_cases(r: Run, keys):
    rng = random.Random(r.seed)
    g = AstGen(rng, keys)
    out = []
    # every table key x {no count, count}
    for sym, isos in keys.items():
        if not sym[0].isupper():
            continue
        for iso in [None] + isos:
            for cnt in (None, 3):
                out.append(render([("e", sym, iso, cnt)]))
    # D34 (known finding): groups counted zero times whose body's own totals leave i32 (the formula's totals all fit) — and the
    # same shapes with bodies that stay inside i32, which must parse
    out += ["(C2000000000C2000000000)0", "H2(O2147483647O)0", "((C1500000000)2)0H", "(C2000000000)0", "(C2H4)0O", "((CH2)3)0C"]
    # adjacency patterns of the 8-state machine
    pats = ["CH", "C[13]H", "Cl[37]C", "C[13]2H", "C2H", "C(H)", "C[13](H)", "C2(H)", "(C)(H)", "(C)2(H)", "(C)H", "(C)2H",
            "((C))", "((C)2)3", "(C(H)2)2O", "H+", "H+2", "CH+", "H+C", "(H+)2", "C[13]", "C[13]2", "(C[13])", "(C[13]2)",
            "UuhC", "Uuh2", "C6H12O6", "C6O6(H2)6", "H12O6C6N2", "C6H13O5S1H3", "Cl[37]2(CH2)3((H)2O)2U", "C0", "C007",
            "(C)0", "C2147483647", "(C1000)1000"]
    out += pats
    n = 4000 if r.tier == "thorough" else 600
    tries = 0
    while len(out) < len(pats) + 900 + n and tries < 100000:
        tries += 1
        ts = g.terms(rng.choice([0, 1, 2, 3, 6]), 0)
        if max_abs(ts) > I32MAX // 4:
            continue
        out.append(render(ts))
    # two keys out of hundreds: every pair of fixed-isotope keys of DIFFERENT elements with the same isotope number (isobars:
    # H[1] / H+[1], Ar[40] / K[40] / Ca[40], ...) and every pair of keys of one element, in one formula
    by_iso = {}
    for sym, isos in keys.items():
        if sym[0].isupper():
            for i in isos:
                by_iso.setdefault(i, []).append(sym)
    for i, syms in sorted(by_iso.items()):
        for a in range(len(syms)):
            for b in range(a + 1, len(syms)):
                out.append(f"{syms[a]}[{i}]2{syms[b]}[{i}]3")
                if (a + b) % 4 == 0 or r.tier == "thorough":
                    out.append(f"{syms[b]}[{i}]({syms[a]}[{i}]2)3{syms[b]}[{i}]")
    for sym, isos in keys.items():
        if sym[0].isupper() and len(isos) >= 2:
            out.append(sym + "2" + "".join(f"{sym}[{i}]{k + 3}" for k, i in enumerate(isos[:4])))
    # the SAME group body more than once at one level, with different multipliers (a parser that remembers a parsed body
    # must not remember what it did to it): flat and nested bodies, adjacent and separated by element terms
    for _ in range(120 if r.tier == "thorough" else 40):
        body = render(g.terms(rng.choice([1, 2, 3]), rng.choice([0, 1, 2])))
        if not body or len(body) > 40:
            continue
        a, b, c = rng.choice([2, 3, 4, 7]), rng.choice(["", 2, 5]), rng.choice([2, 3])
        cand = [f"({body}){a}({body}){b}", f"(({body})2O){a}(({body})2O){b}", f"({body}){a}C({body}){b}H", f"(({body})){a}(({body}))",
                f"(({body}){c}){a}(({body}){c}){b}(({body}){c})"]
        out += [x for x in cand if len(x) < 200]
    out += ["((H))2((H))", "((CH2)2O)4((CH2)2O)2", "(C(H2)2)3(C(H2)2)3(C(H2)2)", "((C[13]H3)2N)3((C[13]H3)2N)2"]
    # every per-key total fits i32, but the totals of DIFFERENT keys (of one group, of the whole formula) add up past it
    out += ["(H2O)1000000000", "C(H2O)1000000000N", "((C[13]H3)1000N)500000", "(C2H2)1000000000", "H2147483647O2147483647",
            "(H)2147483647(O)2147483647", "(HO)2147483647", "(C[13]C)2147483647", "((HO)2)1073741823", "(NaCl)2147483647H2147483647",
            "(C2H2O2N2S2)1000000000"]
    # lengths, counts, isotope numbers and depths named by new literals of the changed code
    from . import common as _c
    for d in _c.dict_ints(3, 20000):
        out += ["C" * d, "CH" * (d // 2) + "O", "C" * (d - 1) + "He", f"C{d}", f"(C){d}", f"(CH2){d}O"]
        if d <= 3000:
            out.append("(" * d + "C" + ")" * d)
    # deep nesting
    for d in (10, 100, 500, 2000):
        out.append("(" * d + "C" + ")" * d)
        out.append("(" * d + "C2" + ")2" * min(d, 20) + ")" * (d - min(d, 20)))
    return out


def gap_isotopes(keys):
    """X[n] for every n around an element's isotope range that is NOT one of its isotopes: must be rejected"""
    out = []
    for sym, isos in keys.items():
        if not isos or not sym[0].isupper():
            continue
        for n in range(max(1, min(isos) - 2), max(isos) + 3):
            if n not in isos:
                out += [f"{sym}[{n}]", f"{sym}[{n}]2", f"({sym}[{n}])2O"]
    return out


def wrapped_numbers(keys):
    """numbers that are a valid isotope / a small count only after a narrowing cast: isotope + k*65536, count + k*2^32 (and
    + 2^31): must be rejected, whichever integer type the digits are parsed as"""
    out = []
    for sym, isos in keys.items():
        if not sym[0].isupper():
            continue
        for iso in (isos[:1] + isos[-1:]) if isos else [0]:
            for k in (65536, 131072, 4294967296):
                out += [f"{sym}[{iso + k}]", f"{sym}[{iso + k}]2", f"({sym}[{iso + k}]3)2"]
    for body in ("C{}", "C[13]{}", "(CH2){}", "O(C){}H"):
        for n in (4294967296 + 2, 4294967296 * 3 + 7, 2147483648 + 5, 18446744073709551616 + 1, 65536 * 65536 * 65536 + 1):
            out.append(body.format(n))
    return out


def malformed_cases(r: Run, wf):
    rng = random.Random(r.seed + 1)
    thorough = r.tier == "thorough"
    L = 5 if thorough else 4
    out = ["".join(t) for n in range(0, L + 1) for t in itertools.product(CLASS_ALPHABET, repeat=n)]
    if thorough:
        small = ["C", "l", "1", "[", "]", "(", ")", "é"]
        out += ["".join(t) for n in (6, 7) for t in itertools.product(small, repeat=n)]
    # mutations of well-formed formulas
    pool = CLASS_ALPHABET + ["O", "2", "3", "N", "a", "e", "*"]
    import re
    for s in wf[:: (1 if thorough else 4)]:
        # counts near the i32 limit are not mutated: an edited digit run multiplies past i32 (arithmetic overflow is out of
        # C05's scope: a debug build panics there by design of the language, a release build wraps)
        if len(s) > 80 or re.search(r"\d{9,}", s):
            continue
        for _ in range(2):
            t = list(s)
            op = rng.randrange(5)
            pos = rng.randrange(len(t) + 1)
            if op == 0 and t:
                del t[min(pos, len(t) - 1)]
            elif op == 1:
                t.insert(pos, rng.choice(pool))
            elif op == 2 and t:
                t[min(pos, len(t) - 1)] = rng.choice(pool)
            elif op == 3 and len(t) > 1:
                i = min(pos, len(t) - 2)
                t[i], t[i + 1] = t[i + 1], t[i]
            else:
                t.insert(pos, t[min(pos, len(t) - 1)] if t else "C")
            out.append("".join(t))
    out += ["".join(rng.choice(pool) for _ in range(rng.randint(8, 64))) for _ in range(3000 if thorough else 400)]
    out += gap_isotopes(table_keys())
    out += wrapped_numbers(table_keys())
    from . import common as _c
    for d in _c.dict_ints(3, 10 ** 12):
        out += [f"C[{d}]", f"C[{d + 13}]", f"C[{d}]2", f"H[{d + 2}]", f"Ac[{d}]", f"C{d}x", "C" * min(d, 20000) + "x", "(" * min(d, 3000) + "C"]
    out += ["C[14]2", "C[14]", "C[0]", "C[]", "C[]2", "Ac[0]", "C[65536]", "C[99999999999]", "C99999999999", "C2147483648",
            "(C)99999999999", "H)", "Xx", "H ", "H-2", "Hé", "H]", "C[13", "C[1[3]]", "()", "(())", "(", ")", "(C", "C)", "((C)",
            "C[13]x", "C[+13]", "C[-1]", "C(", "C2(", "C[13](", "e*", "e*1", "c", "h2o", "C²", "C[²]", "C٣", "(C)²",
            # an isotope bracket whose number does not parse, FOLLOWED by a count (the bracket is read when the
            # count is flushed: mid-string and at the end of input)
            # what may follow a completed term is an upper-case letter or '(' — at each of the four sites (after a count,
            # after a bracket, after a group, after a group count); the table DOES hold a lower-case key, e*
            # symbols that equal a table key only after case folding (E* -> e*, CL, NA, hE) or after Unicode case mapping
            # (U+212A KELVIN SIGN lower-cases to k: B + U+212A -> Bk; U+017F LONG S upper-cases to S)
            # a group whose body is exactly the one table key the grammar does not admit
            "(e*)", "(e*)2", "H2(e*)3O", "C[13](e*)2", "((e*)2O)3", "(e*)(e*)", "(H+)(e*)",
            "E*", "C2E*", "(E*)3", "CL", "NA", "NACL", "Cl2NA", "hE", "B\u212a", "H2B\u212aO", "\u212a", "C\u017f", "(B\u212a)2",
            "C2e*", "C[13]e*", "(C)e*", "(C)2e*", "C2h", "C[13]h", "(C)h", "(C)2h", "(C)é", "C2é", "(C)2é", "C[13]é",
            "C[99999]2", "C[99999]2H", "C[65536]1O2", "C[²]2", "C[²]2O", "(C[99999]2)3", "C[٣]4", "O2C[70000]3",
            "(" * 3000 + "C", "(" * 1500 + ")" * 1500, "C" * 5000, "(C)" * 1000, "((" * 800 + "C" + "))" * 800 + "x"]
    return out


def gen_display_cases(r: Run, keys):
    rng = random.Random(r.seed + 2)
    thorough = r.tier == "thorough"
    allk = [(s, 0) for s in keys] + [(s, i) for s, isos in keys.items() for i in isos]
    groups = []   # each group = one composition (dict) rendered in several orders/forms
    counts = [1, 2, 9, 10, 999, 10 ** 6]
    # every key alone
    for k in allk[:: (1 if thorough else 3)]:
        groups.append([[(k, rng.choice(counts))]])
    # small key sets: all permutations
    sets = [[("C", 0), ("H", 0), ("O", 0)], [("C", 13), ("C", 0), ("H", 0)], [("O", 17), ("O", 18), ("O", 16), ("O", 0)],
            [("H", 2), ("H", 0), ("C", 12), ("C", 13)], [("Cl", 37), ("Cl", 35), ("C", 0), ("Ca", 0)],
            [("H+", 0), ("H", 0), ("He", 0), ("Hf", 0)], [("N", 0), ("Na", 0), ("Nb", 0), ("Ne", 20)], [("Fe", 54), ("Fe", 0), ("F", 0)]]
    for ks in sets:
        cs = [(k, rng.choice(counts)) for k in ks]
        groups.append([list(p) for p in itertools.permutations(cs)])
    for _ in range(300 if thorough else 60):
        n = rng.randint(1, 12)
        ks = rng.sample(allk, n)
        cs = [(k, rng.choice(counts)) for k in ks if k[0] != "e*"]
        if not cs:
            continue
        orders = [cs]
        for _ in range(3):
            o = cs[:]
            rng.shuffle(o)
            orders.append(o)
        groups.append(orders)
    # the whole table in one composition (every symbol and every fixed isotope, 440-odd keys), in three orders
    big = [(k, rng.choice(counts)) for k in allk if k[0] != "e*"]
    orders = [big, list(reversed(big))]
    sh = big[:]
    rng.shuffle(sh)
    orders.append(sh)
    groups.append(orders)
    groups.append([[(("e*", 0), 1)]])
    return groups


def pairs_str(cs):
    return ",".join(f"{k[0]}:{k[1]}={v}" for k, v in cs) or "-"


def ents_str(d):
    items = sorted(d.items())
    return ",".join(f"{k[0]}:{k[1]}={v}" for k, v in items) or "-"


def shape(s):
    out = []
    for c in s[:16]:
        if c.isascii() and c.isupper():
            k = "A"
        elif c.isascii() and c.islower():
            k = "a"
        elif c.isascii() and c.isdigit():
            k = "9"
        elif ord(c) > 127:
            k = "u"
        elif c == "\x00":
            k = "0"
        else:
            k = c
        if not out or out[-1] != k:
            out.append(k)
    return "".join(out)


def shrink_string(r, s, pred):
    try:
        if not pred(s):
            return s
        t = ddmin(list(s), lambda cs: pred("".join(cs)))
        return "".join(t)
    except Exception:
        return s


def zero_group_overflow(s):
    """D34: does the well-formed formula `s` hold a group with multiplier 0 whose body's per-key totals (computed before the
    multiplication) leave i32?  Plain recursive descent over ( … )n, Sym, Sym[iso], counts; None if `s` is not of that shape."""
    import re
    pos = 0

    def terms(depth):
        nonlocal pos
        tot, hit = {}, False
        while pos < len(s) and s[pos] != ")":
            if s[pos] == "(":
                pos += 1
                body, h = terms(depth + 1)
                if pos >= len(s) or s[pos] != ")":
                    raise ValueError
                pos += 1
                m = re.match(r"\d+", s[pos:])
                n = int(m.group()) if m else 1
                pos += len(m.group()) if m else 0
                hit |= h or (n == 0 and any(v > I32MAX for v in body.values()))
                for k, v in body.items():
                    tot[k] = tot.get(k, 0) + v * n
            else:
                m = re.match(r"([A-Z][a-z]*\+?)(\[\d*\])?(\d+)?", s[pos:])
                if not m or not m.group():
                    raise ValueError
                pos += len(m.group())
                k = m.group(1) + (m.group(2) or "")
                tot[k] = tot.get(k, 0) + (int(m.group(3)) if m.group(3) else 1)
        return tot, hit
    try:
        _, hit = terms(0)
        return hit if pos == len(s) else None
    except (ValueError, RecursionError):
        return None


def judge_parse(prop, wf, il, dl):
    """classify one parse case; returns (kind, detail) or None"""
    parts = dl.split("\t")
    if len(parts) != 2:
        return ("BROKEN", f"driver: {dl[:80]}")
    model, verdict = parts
    outcome = il.split(" ")[0]
    if verdict.startswith("accept "):
        # a formula whose per-key total leaves i32 is outside every property's domain (arithmetic overflow: a debug build
        # panics there, a release build wraps); the grammar oracle counts in unbounded integers
        try:
            if any(abs(int(kv.rsplit("=", 1)[1])) > I32MAX for kv in verdict.split(" ", 1)[1].split(",") if "=" in kv):
                return None
        except ValueError:
            pass
    if outcome in ("panic", "abort") or il.startswith("entry-points-differ"):
        # entry points must agree (C01); no entry point may panic (C05)
        if il.startswith("entry-points-differ"):
            return ("C01" if "panic" not in il else "C05", "entry-points", f"{il[:300]}")
        return ("C05", "total", f"parser outcome: {il[:40]}")
    if verdict.startswith("accept"):
        want = "ok " + verdict.split(" ", 1)[1]
        if il != want:
            return ("C01", "accept", f"returned {il[:160]}, the formula denotes {want[:160]}")
    elif verdict == "reject":
        if outcome == "ok":
            return ("C05", "reject", f"returned {il[:160]} for text that is not a well-formed formula")
    if il != model:
        return ("CORR", "corr", f"impl {il[:160]} model {model[:160]}")
    return None


def run_parse(r: Run, prop):
    keys = table_keys()
    wf = well_formed_cases(r, keys)
    mal = malformed_cases(r, wf) if prop in ("C05",) else malformed_cases(r, wf)[:: 7] + gap_isotopes(keys)[:: 5]
    cases = [(s, True, None) for s in wf] + [(s, False, None) for s in mal]
    # caller-supplied tables (parse_formula_with_table / parse_with / the helper): sub-tables of the built-in one.
    # A symbol the supplied table lacks is unknown wherever it stands — at top level, inside groups, nested.
    rng = random.Random(r.seed + 5)
    grouped = ["(Na)2O", "H2(SO4)", "(C(Cl)3)2", "C(Na)", "(H)2Na", "Na(H)2", "((Na))", "H(O(S))", "NaCl", "Cl", "(Cl)",
               "(C2H5)2O", "C[13](H)2", "(C[13])2", "(Cl[37])2", "H+", "(H+)2", "O(H+)", "(Uuh)", "CH4(N2)3(S)", "(((S)))2"]
    for sub in ("C,H,N,O", "H", "C,Cl,Na", "-", "O,S,H+,Uuh", "C,H,N,O,S,P,Na,K,Cl", "C,H,N,O,Cl,S!n"):
        pool = grouped + rng.sample(wf, min(len(wf), 60 if r.tier == "thorough" else 25)) + rng.sample(mal, min(len(mal), 40))
        if sub.endswith("!n"):
            # every isotope number from 1 to 40 on the table's elements: the ones the element has parse, the others do not
            pool = pool + [f"{sy}[{k}]{c}" for sy in ("C", "H", "N", "O", "Cl", "S") for k in range(1, 41) for c in ("", "2")] + \
                ["(N[8])3", "C[6]2H4", "C[13]2H4", "(Cl[37])2O[18]"]
        cases += [(t, False, sub) for t in pool if len(t) < 300]

    def line_of(t, sub):
        return f"parse\t{cps(t)}" if sub is None else f"parsewith\t{sub}\t{cps(t)}"
    lines = [line_of(s, sub) for s, _, sub in cases]
    from .common import check_charclasses
    check_charclasses(r, [s for s, _, _ in cases])
    impl = r.impl("formula", lines, timeout=2400)
    model = r.model("formula", lines, timeout=2400)
    corr_ok = True
    verdict_hist = {}
    seen = set()
    for (s, is_wf, sub), il, dl in zip(cases, impl, model):
        verdict = dl.split("\t")[-1].split(" ")[0]
        cls = ("wf" if is_wf else "mal", il.split(" ")[0], verdict, shape(s) if len(s) <= 5 else min(len(s), 40) // 8, sub)
        r.case(cls, {"string": s[:80], "impl": il[:120], "spec": dl.split("\t")[-1][:120]})
        verdict_hist[(il.split(" ")[0], verdict)] = verdict_hist.get((il.split(" ")[0], verdict), 0) + 1
        if is_wf and verdict != "accept" and len(s) < 3000:
            raise Broken(f"generator/oracle: well-formed {s[:60]!r} judged {verdict}")
        if il.split(" ")[0] in ("panic", "abort") and verdict == "accept" and "(" in s and zero_group_overflow(s):
            # D34 (known finding, C01): a group multiplied by 0 whose body's totals leave i32 — the body is summed first
            if prop == "C01":
                r.violation("zero-multiplier-overflow", {"group_multiplier": 0, "body_total": "exceeds i32"},
                            f"parsing {s[:80]!r}: {il[:40]} — every per-key total of the formula fits in i32 (the group counts zero times), "
                            f"the body's own totals do not", observed={"lines": [line_of(s, sub)], "string": s[:200], "impl": il[:100]})
            continue
        j = judge_parse(prop, is_wf, il, dl)
        if j is None:
            continue
        if j[0] == "BROKEN":
            raise Broken(j[1])
        p, clause, detail = j
        if p == "CORR":
            corr_ok = False
            p = prop
            kind = "corr_broken"
        else:
            kind = "impl_vs_spec"
        if p != prop:
            r.coverage["disagreements_attributed_to_other_properties"] = r.coverage.get("disagreements_attributed_to_other_properties", 0) + 1
            continue
        corr_ok = False
        if (clause, shape(s)) in seen or len(seen) > 40:
            continue
        seen.add((clause, shape(s)))

        def still(t, clause=clause, p=p, sub=sub):
            a = r.impl("formula", [line_of(t, sub)])[0]
            b = r.model("formula", [line_of(t, sub)])[0]
            jj = judge_parse(prop, False, a, b)
            return jj is not None and jj[1] == clause
        s2 = shrink_string(r, s, still) if len(s) <= 200 else s
        a = r.impl("formula", [line_of(s2, sub)])[0]
        b = r.model("formula", [line_of(s2, sub)])[0]
        jj = judge_parse(prop, False, a, b) or j
        wit = {"shape": shape(s2)}
        if sub is not None:
            wit["table"] = sub
        r.violation(clause, wit, f"parsing {s2[:80]!r}" + (f" with a table holding only {{{sub}}}" if sub is not None else "") + f": {jj[2]}",
                    expected=b.split("\t")[-1][:300],
                    observed={"lines": [line_of(s2, sub)], "string": s2[:200], "impl": a[:300]}, model=b.split("\t")[0][:300], kind=kind)
    r.coverage["outcome_x_verdict"] = {f"{k[0]}/{k[1]}": v for k, v in sorted(verdict_hist.items())}
    r.coverage["strings"] = dict(well_formed=len(wf), malformed=len(mal))
    r.oblige(f"correspondence: all parsing entry points agree with the model and the grammar oracle ({prop} observables)", "corr", corr_ok)


def run_display(r: Run):
    keys = table_keys()
    groups = gen_display_cases(r, keys)
    lines, meta = [], []
    for gi, orders in enumerate(groups):
        for oi, cs in enumerate(orders):
            forms = ["vec", "map", "evec", "emap"] if oi == 0 else [("vec", "map")[oi % 2]]
            for f in forms:
                lines.append(f"display\t{f}\t{pairs_str(cs)}")
                meta.append((gi, cs, f))
    # every third composition takes every other key from a SECOND table instance with the same content (equal keys, other
    # `Element` objects): the text, the parse-back, `==` and serde must not notice
    ilines = []
    for n, (line, (gi, cs, f)) in enumerate(zip(lines, meta)):
        if n % 3 == 1 and cs:
            ps = ",".join(f"{k[0]}:{k[1]}{'~2' if j % 2 == 0 else ''}={v}" for j, (k, v) in enumerate(cs))
            ilines.append(f"display\t{f}\t{ps}")
        else:
            ilines.append(line)
    impl = r.impl("formula", ilines)
    model = r.model("formula", lines)
    corr_ok = True
    texts = {}
    for (gi, cs, f), line, il, dl in zip(meta, lines, impl, model):
        want = "ok " + ents_str(dict(cs))
        parts = il.split("\t")
        mparts = dl.split("\t")
        n = len(cs)
        r.case(("display", f, min(n, 6), any(k[1] for k, _ in cs), parts[1].split(" ")[0] if len(parts) > 1 else il),
               {"line": line[:160], "impl": il[:200]})
        wit = {"keys": sorted(set(k[0] for k, _ in cs))[:3]} if n <= 2 else {"size": min(n, 6)}
        if len(parts) != 5:
            corr_ok = False
            r.violation("display-total", dict(wit, outcome=il[:20]), f"Display of {pairs_str(cs)} on {f}: {il[:80]}", observed={"lines": [line]})
            continue
        text, back, ser, de_vec, de_map = parts
        tstr = "".join(chr(int(c)) for c in text.split()) if text != "-" else ""
        problems = []
        if back != want:
            problems.append(("roundtrip", f"{tstr!r} parses back to {back[:120]}, expected {want[:120]}"))
        if ser != "ser-ok":
            problems.append(("serde-serialize", ser[:120]))
        if de_vec != want:
            problems.append(("serde-vec", f"ChemicalCompositionVec deserialised from {tstr!r}: {de_vec[:120]}"))
        if de_map != want:
            problems.append(("serde-map", f"ChemicalCompositionMap deserialised from {tstr!r}: {de_map[:120]}"))
        prev = texts.setdefault(gi, (tstr, f, cs))
        if prev[0] != tstr:
            problems.append(("canonical", f"equal compositions render differently: {prev[0]!r} ({prev[1]}) vs {tstr!r} ({f})"))
        for clause, detail in problems:
            corr_ok = False
            r.violation(clause, wit, detail, expected=want, observed={"lines": [line], "impl": il[:400]}, model=dl[:300])
        if not problems and text != mparts[0]:
            corr_ok = False
            r.violation("corr-display", wit, f"Display {tstr!r} differs from the model's", expected=mparts[0], observed={"lines": [line]},
                        kind="corr_broken")
    # element specifications through serde
    slines = [f"specserde\t{s}:{i}" for s, isos in list(keys.items())[:: (1 if r.tier == 'thorough' else 4)] for i in [0] + isos]
    for line, il in zip(slines, r.impl("formula", slines)):
        r.case(("specserde", il.split(" ")[-1]), None)
        if not il.endswith("eq=true"):
            corr_ok = False
            r.violation("serde-spec", {"key": line.split("\t")[1]}, f"ElementSpecification serde round trip: {il[:120]}", observed={"lines": [line]})
    r.oblige("correspondence: Display / FromStr / serde of compositions and element specifications agree with the model and round-trip", "corr", corr_ok)


def replay(r: Run, path):
    rec = json.loads(open(path).read())
    r.build_harness()
    for line in rec["observed"]["lines"]:
        print("case :", line[:300])
        print("impl :", r.impl("formula", [line])[0][:600])
        print("model:", r.model("formula", [line])[0][:600])
    return 0
