"""Pattern operations (C13, C14): generation, both interpreters, comparison with the exact oracle."""
import random
from fractions import Fraction

from .common import Run, Broken, close, ddmin

C13_OPS = {"normalize", "scale", "shift", "cshift", "trunc", "ignore", "total"}
C14_OPS = {"fused", "droplast", "slice", "incr", "eq"}
GRID = 1 << 20
TOL = 1e-11
MARGIN = Fraction(1, 10 ** 9)


def fr(x: Fraction) -> str:
    d = x.denominator
    if d > (1 << 1000) and d & (d - 1) == 0:
        return f"{x.numerator}/2^{d.bit_length() - 1}"     # past the range of f64: subnormal values
    return f"{x.numerator}/{d}"


def dy(k, bits=20):
    return Fraction(k, 1 << bits)


def peaks_str(l):
    return ",".join(f"{fr(m)}:{fr(i)}" for m, i in l) if l else "-"


def gen_list(rng, n, normalised):
    """positive dyadic intensities (multiples of 2^-20, so every f64 partial sum is exact)"""
    if normalised:
        cuts = sorted(rng.sample(range(1, GRID), n - 1)) if n > 1 else []
        ks = [b - a for a, b in zip([0] + cuts, cuts + [GRID])]
    else:
        shape = rng.choice(["flat", "decay", "peak"])
        ks = []
        for i in range(n):
            if shape == "flat":
                ks.append(rng.randint(1, GRID))
            elif shape == "decay":
                ks.append(max(1, int(GRID * (0.6 ** i) * rng.uniform(0.5, 1.0))))
            else:
                ks.append(max(1, int(GRID * rng.uniform(0.01, 1.0) / (1 + abs(i - n // 3)))))
    mz0 = Fraction(rng.randint(50 * 1024, 3000 * 1024), 1024)
    step = Fraction(rng.choice([1024, 512, 1027, 343]), 1024)
    return [(mz0 + i * step, dy(k)) for i, k in enumerate(ks)]


def thresholds(rng, l):
    cum = []
    acc = Fraction(0)
    for _, i in l:
        acc += i
        cum.append(acc)
    # (offsets are multiplicative: an additive 1/8 is not representable next to a total of 2^100)
    out = [Fraction(0), Fraction(-1, 4), l[0][1] / 2, cum[-1], cum[-1] * Fraction(9, 8), cum[-1] * 2]
    for j in rng.sample(range(len(cum)), min(3, len(cum))):
        out.append(cum[j])                       # exactly on a representable cumulative sum
        nxt = cum[j + 1] if j + 1 < len(cum) else cum[j] + Fraction(1, 16)
        out.append((cum[j] + nxt) / 2)           # strictly between two cumulative sums
    return out


def gen_cases(r: Run):
    rng = random.Random(r.seed)
    cases = []
    thorough = r.tier == "thorough"
    # corpus: witnesses of the repaired defects, first
    base = [(Fraction(100 + i), Fraction(1, 2 ** (i + 1))) for i in range(4)]
    near1 = [(Fraction(100 + i), x) for i, x in enumerate([Fraction(1, 2), Fraction(1, 4), Fraction(1, 8), Fraction(1, 16)])]
    corpus = [
        ("trunc", base, [Fraction(1)]), ("trunc", near1, [Fraction(2)]),
        ("fused", base, [Fraction(7, 10), Fraction(3, 10), Fraction(5)]),
        ("fused", base, [Fraction(2), Fraction(1, 10), Fraction(0)]),
        ("droplast", base, []), ("droplast", base[:1], []), ("incr", base, [Fraction(1, 2)]),
        ("incr", base[:1], [Fraction(0)]), ("slice", base, [Fraction(1), Fraction(3)]),
    ]
    # D30 (known finding): peaks to keep whose raw total is a subnormal double
    tiny = Fraction(1, 2 ** 1051)
    corpus += [("normalize", [(Fraction(100), tiny)], []), ("trunc", [(Fraction(100), tiny), (Fraction(101), tiny)], [Fraction(0)]),
               ("droplast", [(Fraction(100), tiny), (Fraction(101), Fraction(1))], []),
               ("slice", [(Fraction(100), Fraction(1, 2)), (Fraction(101), tiny), (Fraction(102), Fraction(1, 2))], [Fraction(1), Fraction(2)])]
    for op, l, a in corpus:
        cases.append(dict(op=op, origin=l[0][0], peaks=l, args=a, exact=True, kind="corpus"))
    # the empty pattern ("for every pattern"): every derived operation returns the empty pattern, none panics
    for op, a in (("fused", [Fraction(1, 2), Fraction(1, 10), Fraction(5)]), ("fused", [Fraction(0), Fraction(0), Fraction(0)]), ("droplast", []),
                  ("slice", [Fraction(0), Fraction(0)]), ("incr", [Fraction(1, 2)]), ("incr", [Fraction(0)]), ("trunc", [Fraction(1, 2)]),
                  ("ignore", [Fraction(1, 2)]), ("normalize", [])):
        cases.append(dict(op=op, origin=Fraction(100), peaks=[], args=a, exact=True, kind="corpus"))
    cases.append(dict(op="eq", a=base, b=base[:2], oa=Fraction(0), ob=Fraction(0), kind="corpus"))
    cases.append(dict(op="eq", a=base, b=[], oa=Fraction(0), ob=Fraction(0), kind="corpus"))
    import math
    nlists = 400 if thorough else 60
    # lengths and magnitudes named by new literals of the changed code: lists of d-1, d, d+1 peaks; totals of about f/4, f, 4f
    from . import common as _c
    import math
    special = [("len", v) for v in _c.dict_ints(1, 300)] + [("mag", f) for f in _c.DICT_FLOATS if 1e-300 < abs(f) < 1e300]
    for li in range(nlists + 3 * len(special)):
        n = rng.choice([1, 2, 3, 4, 5, 8, 13, 21, 34, 64]) if li % 3 else rng.randint(1, 64)
        sp = special[(li - nlists) // 3] if li >= nlists else None
        if sp and sp[0] == "len":
            n = sp[1]
        l = gen_list(rng, n, normalised=(li % 2 == 0))
        if sp and sp[0] == "mag":
            e = round(math.log2(abs(sp[1]))) + (-2, 0, 2)[li % 3] - (0 if li % 2 == 0 else round(math.log2(max(1e-9, float(sum(i for _, i in l))))))
            l = [(m, i * (Fraction(2) ** e)) for m, i in l]
        if li % 10 in (7, 9):
            # the same shapes at extreme magnitudes (a positive total far below f64::EPSILON, or astronomically large):
            # "every non-empty pattern with positive total intensity" — powers of two keep every value exact
            k = Fraction(1, 2 ** 70) if li % 10 == 7 else Fraction(2 ** 120)
            l = [(m, i * k) for m, i in l]
        if li % 10 == 1 and sp is None and n >= 3:
            # near-duplicate peaks (fine-structure doublets, dense clusters): m/z 2^-12 apart and intensities within 1e-3 of one
            # another — closer than the tolerance of `Peak ==` — next to a few ordinary peaks; thresholds fall among them
            m0 = l[0][0]
            small = [(m0 + i * Fraction(1, 4096), dy(rng.randint(100, 2000))) for i in range(n - 2)]
            l = small + [(m0 + 1, dy(rng.randint(GRID // 4, GRID // 2))), (m0 + 2, dy(rng.randint(GRID // 8, GRID // 4)))]
            if li % 20 == 1:
                l = l[-2:] + small      # ... and with the cluster after the big peaks
        inexact = False
        if li % 10 in (3, 5) and sp is None:
            # magnitudes drawn per peak: a dominant last / first peak, a subnormal tail, or fully independent exponents
            # ("all peak lists with positive intensities"); f64 partial sums of such lists are not exact
            mode = ("lastdom", "firstdom", "subtail", "indep", "subhead")[(li // 10) % 5]
            if mode == "lastdom":
                es = [rng.choice([-60, -52, -45])] * (n - 1) + [0]
            elif mode == "firstdom":
                es = [0] + [rng.choice([-60, -52, -45])] * (n - 1)
            elif mode == "subtail":
                es = [0] * max(1, n - 2) + [-1045, -1050][: n - max(1, n - 2)]
            elif mode == "subhead":
                es = [-1048] + [0] * (n - 1)
            else:
                es = [rng.choice([-1040, -300, -60, -40, -20, 0, 20, 60]) for _ in range(n)]
            l = [(m, i * (Fraction(2) ** e)) for (m, i), e in zip(l, es)]
            inexact = True
        scaled = li % 10 in (7, 9) or bool(sp and sp[0] == "mag") or inexact
        # the origin is a field of its own: only sometimes the first peak's m/z
        origin = l[0][0] if li % 3 == 0 else Fraction(rng.randint(50 * 64, 3000 * 64), 64)
        is_norm = sum(i for _, i in l) == 1
        ths = thresholds(rng, l)
        def add(op, args, exact=True):
            cases.append(dict(op=op, origin=origin, peaks=l, args=args, exact=exact, kind="grid"))
        add("normalize", [])
        add("total", [])
        add("scale", [Fraction(rng.randint(1, 4096), 64)])
        add("shift", [Fraction(rng.randint(-1000 * 64, 1000 * 64), 64)])
        add("cshift", [Fraction(rng.randint(-1000 * 64, 1000 * 64), 64)])
        add("droplast", [])
        if li % 4 == 0:
            # the origin is the caller's: far from the peaks (an "unknown" marker, another unit) the offset must still reach
            # every m/z exactly as given, not as rounded at the origin's magnitude
            for far_o in (Fraction(2) ** 60, -Fraction(2) ** 75 * 3, Fraction(2) ** 1023):
                off = Fraction(rng.randint(-1000 * 64, 1000 * 64) | 1, 64)
                for op_ in ("shift", "cshift"):
                    cases.append(dict(op=op_, origin=far_o, peaks=l, args=[off], exact=True, kind="grid"))
                cases.append(dict(op="fused", origin=far_o, peaks=l, args=[Fraction(2), Fraction(0), off], exact=False, kind="grid"))
        cums, acc_ = [], Fraction(0)
        for _, i_ in l:
            acc_ += i_
            cums.append(acc_)
        for cj in (cums[0], cums[len(cums) // 2]):
            fc = float(cj)
            if Fraction(fc) == cj and 0 < fc < 1e300:
                ths = ths + [Fraction(math.nextafter(fc, math.inf)), Fraction(math.nextafter(fc, 0.0))]
        if inexact:
            ths = [Fraction(float(t)) for t in ths]       # thresholds the caller can actually pass
        for t in ths:
            add("trunc", [t], exact=not inexact)
            # on a list that sums to exactly 1 normalisation is the identity in f64 as well, so a threshold
            # sitting exactly on a cumulative sum is decided exactly on both sides
            ti = t / max(Fraction(1), sum(i for _, i in l))
            add("incr", [Fraction(float(ti)) if inexact else ti], exact=is_norm and not inexact)
        its = sorted(set(i for _, i in l))
        igs = [Fraction(0), its[0], its[-1], its[-1] * Fraction(1025, 1024), its[len(its) // 2],
               (its[0] + its[-1]) / 2, Fraction(-1)]
        # thresholds ONE floating-point step above / below an intensity (exact doubles: the decision is not a matter of
        # rounding) — a filter with "a little slack" keeps or drops the wrong peak here
        import math
        for base in (its[0], its[len(its) // 2], its[-1]):
            fb = float(base)
            if Fraction(fb) == base and 0 < fb < 1e300:
                igs += [Fraction(math.nextafter(fb, math.inf)), Fraction(math.nextafter(fb, 0.0)),
                        Fraction(math.nextafter(math.nextafter(fb, math.inf), math.inf))]
        if inexact:
            igs = [Fraction(float(t)) for t in igs]
        for t in igs:
            add("ignore", [t])
        for _ in range(6 if thorough else 3):
            t1 = Fraction(rng.randint(0, 1229), 1024)          # [0, 1.2]
            t2 = Fraction(rng.randint(0, 1229), 1024) if rng.random() < 0.4 else Fraction(rng.randint(0, 300), 1024)
            tot = sum(i for _, i in l)
            ta = t1 * tot if rng.random() < 0.5 else t1
            add("fused", [Fraction(float(ta)) if inexact else ta, t2, Fraction(rng.randint(-64000, 64000), 64)], exact=False)
        if is_norm:
            # ties that are exact in f64 too: the list sums to exactly 1 and the first threshold keeps everything, so
            # the retained total is 1 and "intensity >= t2" is decided on identical numbers by the fused and the
            # step-wise form — a filter threshold sitting exactly ON an intensity must keep that peak
            for t2 in (its[0], its[len(its) // 2], its[-1]):
                add("fused", [Fraction(rng.choice([1, 2])), t2, Fraction(rng.randint(-64000, 64000), 64)], exact=True)
            # ... and a truncation threshold exactly ON a cumulative sum (the prefix that REACHES it ends there), with a
            # filter that keeps everything: how many peaks survive does not depend on rounding
            cum = []
            acc = Fraction(0)
            for _, i in l:
                acc += i
                cum.append(acc)
            for j in sorted(set([0, len(cum) // 2, max(0, len(cum) - 2)])):
                add("fused", [cum[j], Fraction(rng.choice([0, -1])), Fraction(rng.randint(-64000, 64000), 64)], exact=True)
        a = rng.randint(0, n)
        b = rng.randint(a, n)
        add("slice", [Fraction(a), Fraction(b)])
        if li % 10 == 0:
            add("slice", [Fraction(b + 1), Fraction(a)])       # bad range: panic
            add("slice", [Fraction(0), Fraction(n + 1)])
        if scaled:
            continue   # the equality tolerance is absolute: the additive perturbations below are not representable at 2^120
        # equality pool: the list, its prefixes, the empty pattern, perturbed copies
        pool = [l, l[:-1], l[: max(0, n // 2)], [],
                [(m + Fraction(1, 4096), i) for m, i in l],
                [(m + Fraction(3, 1024), i) for m, i in l],
                [(m, i + Fraction(1, 2048)) for m, i in l],
                [(m, i + Fraction(1, 256)) for m, i in l[:-1]] + l[-1:]]
        for x in pool:
            for y in pool[:5] if not thorough else pool:
                cases.append(dict(op="eq", a=x, b=y, oa=origin, ob=origin, kind="grid"))
        # the 1e-3 tolerance is absolute: it must not widen on patterns scaled to an observed signal (intensities of
        # millions) or at very large m/z — all values dyadic, so the f64 differences are exact
        big = [(m, i * 2 ** 22) for m, i in l]
        far = [(m * 4096, i) for m, i in l]
        for x, y in ((big, [(m, i + Fraction(1, 256)) for m, i in big]), (big, [(m, i + Fraction(1, 2048)) for m, i in big]),
                     ([(m, i + Fraction(1, 256)) for m, i in big[:1]] + big[1:], big), (big, big),
                     (far, [(m + Fraction(3, 1024), i) for m, i in far]), (far, [(m + Fraction(1, 4096), i) for m, i in far]),
                     (big[:1], [(big[0][0], big[0][1] - Fraction(1, 128))])):
            cases.append(dict(op="eq", a=x, b=y, oa=origin, ob=origin, kind="grid"))
    # generator outputs: real Poisson patterns whose f64 total is a few ulp off 1
    plines = [f"poisson\t{fr(Fraction(m))}\t{n}\t{z}" for m, n, z in
              [(1200, 8, 2), (750, 5, 1), (5000, 20, 3), (100000, 60, 1), (1800, 12, -2), (36000, 64, 4)]]
    for out in r.impl("poisson", plines):
        if not out.startswith("ok"):
            continue
        l = [tuple(Fraction(x) for x in pq.split(":")) for pq in out.split(" ")[2].split(",")]
        origin = l[0][0]
        tot = sum(i for _, i in l)
        for t in [Fraction(95, 100), Fraction(1), tot, Fraction(999, 1000), Fraction(1, 2), Fraction(11, 10)]:
            cases.append(dict(op="trunc", origin=origin, peaks=l, args=[t], exact=False, kind="generator"))
            cases.append(dict(op="incr", origin=origin, peaks=l, args=[t], exact=False, kind="generator"))
            cases.append(dict(op="fused", origin=origin, peaks=l, args=[t, Fraction(1, 1000), Fraction(0)], exact=False, kind="generator"))
        for t in [Fraction(1, 1000), Fraction(1, 100), Fraction(0)]:
            cases.append(dict(op="ignore", origin=origin, peaks=l, args=[t], exact=False, kind="generator"))
        cases.append(dict(op="normalize", origin=origin, peaks=l, args=[], exact=False, kind="generator"))
        cases.append(dict(op="droplast", origin=origin, peaks=l, args=[], exact=False, kind="generator"))
    return cases


def case_line(c):
    if c["op"] == "eq":
        return "\t".join(["peakseq", fr(c["oa"]), peaks_str(c["a"]), fr(c["ob"]), peaks_str(c["b"])])
    return "\t".join(["peaks", c["op"], fr(c["origin"]), peaks_str(c["peaks"])] + [fr(a) for a in c["args"]])


def parse_pattern(s):
    """'ok origin peaks' -> (origin|None, [(mz,int)]) ; other strings returned as is"""
    if not s.startswith("ok "):
        return s
    _, o, p = s.split(" ")
    peaks = [] if p == "-" else [tuple(Fraction(x) for x in pq.split(":")) for pq in p.split(",")]
    return (None if o == "*" else Fraction(o), peaks)


def same_pattern(a, b, tol=TOL):
    if isinstance(a, str) or isinstance(b, str):
        return a == b
    if (a[0] is None) != (b[0] is None):
        return False
    if a[0] is not None and not close(a[0], b[0], rel=tol):
        return False
    if len(a[1]) != len(b[1]):
        return False
    return all(close(x[0], y[0], rel=tol) and close(x[1], y[1], rel=tol, abs_=1e-300) for x, y in zip(a[1], b[1]))


def parse_out(s):
    if s.startswith("list"):
        body = s[5:]
        return ("list", [parse_pattern(x) for x in body.split("|")] if body else [])
    return parse_pattern(s)


def same_out(a, b):
    if isinstance(a, tuple) and a and a[0] == "list":
        if not (isinstance(b, tuple) and b and b[0] == "list") or len(a[1]) != len(b[1]):
            return False
        return all(same_pattern(x, y) for x, y in zip(a[1], b[1]))
    if isinstance(b, tuple) and b and b[0] == "list":
        return False
    return same_pattern(a, b)


SUBNORMAL = Fraction(1, 2 ** 1022)


def retained_min(c, spec):
    """the smallest raw total over the peak sets the operation is specified to keep (each of them is renormalised by the
    real code as `scale_by(1.0 / total)`), found by mapping the specified m/z back to the input list"""
    if c["op"] not in ("normalize", "trunc", "ignore", "fused", "droplast", "slice", "incr"):
        return None
    shift = c["args"][2] if c["op"] == "fused" else Fraction(0)
    raw = {m + shift: i for m, i in c["peaks"]}
    pats = spec[1] if isinstance(spec, tuple) and spec and spec[0] == "list" else [spec]
    tots = []
    for p in pats:
        if isinstance(p, tuple) and p[1] and all(x[0] in raw for x in p[1]):
            tots.append(sum(raw[x[0]] for x in p[1]))
    if c["op"] == "incr":
        tots.append(sum(i for _, i in c["peaks"]))      # the iterator normalises the whole pattern first
    return min(tots) if tots else None


def compare(c, impl_line, drv_line):
    """returns (status, detail): status in ok | skipped | impl_vs_spec | corr | broken | d30"""
    st, detail = compare_(c, impl_line, drv_line)
    if st in ("impl_vs_spec", "corr"):
        parts = drv_line.split("\t")
        rm = retained_min(c, parse_out(parts[1])) if len(parts) == 3 and c["op"] != "eq" and parts[1] != "unspecified" else None
        if rm is not None and 0 < rm < SUBNORMAL:
            return "d30", detail
    return st, detail


def compare_(c, impl_line, drv_line):
    parts = drv_line.split("\t")
    if len(parts) != 3:
        return "broken", f"driver said {drv_line[:100]}"
    model_s, spec_s, margin_s = parts
    margin = None if margin_s == "inf" else Fraction(margin_s)
    boundary = margin is not None and margin < MARGIN and not (c.get("exact") and c["op"] in ("trunc", "ignore", "incr", "fused"))
    if c["op"] == "eq":
        if boundary:
            return "skipped", ""
        if impl_line != spec_s:
            return "impl_vs_spec", f"== returned {impl_line}, spec (documented 1e-3 tolerance, same length) says {spec_s}"
        if model_s != spec_s:
            # the code agrees with the specification and the model does not: the model (or the constant the
            # translator read for it) is wrong — a bug of this check, not a finding about /repo
            return "broken", f"model {model_s} spec {spec_s}"
        return "ok", ""
    if c["op"] == "total":
        a, b = Fraction(impl_line), Fraction(model_s)
        return ("ok", "") if close(a, b, rel=TOL) else ("impl_vs_spec", f"total {a} vs {b}")
    i, m, s = parse_out(impl_line), parse_out(model_s), parse_out(spec_s)
    if c["op"] == "normalize" and isinstance(i, tuple) and i[0] != "list" and 0 < len(i[1]) <= 64:
        # the floating-point theorem (Props/C13Float.lean, flNormalize_sum_f64): under the standard rounding model
        # with u = 2^-53 the EXACT sum of the computed intensities of at most 64 positive peaks is within 1e-14 of 1
        tot = sum(x[1] for x in i[1])
        if abs(tot - 1) > Fraction(1, 10 ** 14):
            return "impl_vs_spec", f"normalize: the exact sum of the returned intensities is 1 {'+' if tot > 1 else '-'} {float(abs(tot - 1)):.3e} (> 1e-14)"
    if boundary:
        # a threshold within 1e-9 of a boundary: WHICH side the f64 sums fall on is not specified — but a panic or a non-finite
        # result is wrong on either side, and so is anything but "every peak" when both sides of the last boundary keep them all
        if isinstance(i, str) and not isinstance(s, str):
            return "impl_vs_spec", f"impl {impl_line[:120]} where every admissible outcome is a pattern (spec {spec_s[:120]})"
        if c["op"] == "trunc" and c["peaks"]:
            t = c["args"][0]
            before_last = sum(x[1] for x in c["peaks"][:-1])
            if t > before_last * (1 + Fraction(1, 10 ** 9)) + Fraction(1, 10 ** 300):
                # at or beyond the total, reached by the last peak or never: all peaks either way
                if not (isinstance(i, tuple) and len(i[1]) == len(c["peaks"])):
                    return "impl_vs_spec", f"truncate_after({float(t)}) near / above the total must keep all {len(c['peaks'])} peaks: impl {impl_line[:160]}"
                if spec_s != "unspecified" and isinstance(s, tuple) and len(s[1]) == len(c["peaks"]) and not same_out(i, s):
                    return "impl_vs_spec", f"impl {impl_line[:200]} spec {spec_s[:200]}"
                return "ok", ""
        return "skipped", ""
    if spec_s != "unspecified" and not same_out(m, s):
        return "broken", f"model and spec differ: {model_s[:120]} vs {spec_s[:120]}"
    if spec_s != "unspecified" and not same_out(i, s):
        return "impl_vs_spec", f"impl {impl_line[:200]} spec {spec_s[:200]}"
    if not same_out(i, m):
        return "corr", f"impl {impl_line[:200]} model {model_s[:200]}"
    return "ok", ""


def shape(c, impl_line):
    if c["op"] == "eq":
        return ("eq", len(c["a"]), len(c["b"]), impl_line)
    n = len(c["peaks"])
    out = parse_out(impl_line)
    if isinstance(out, tuple) and out[0] == "list":
        k = ("list", len(out[1]))
    elif isinstance(out, tuple):
        k = len(out[1])
    else:
        k = out
    return (c["op"], c["kind"], n, k)


def run_all(r: Run, prop):
    mine = C13_OPS if prop == "C13" else C14_OPS
    cases = [c for c in gen_cases(r) if c["op"] in mine]
    lines = [case_line(c) for c in cases]
    impl = r.impl("peaks", lines)
    drv = r.model("peaks", lines)
    skipped = 0
    corr_ok = True
    hist = {}
    seen = set()
    for c, il, dl in zip(cases, impl, drv):
        status, detail = compare(c, il, dl)
        hist[c["op"]] = hist.get(c["op"], 0) + 1
        r.case(shape(c, il), {"line": case_line(c)[:300], "impl": il[:200]})
        if status == "ok":
            continue
        if status == "skipped":
            skipped += 1
            continue
        if status == "broken":
            raise Broken(f"{c['op']}: {detail}")
        if status == "d30":
            # D30 (known finding): the peaks to keep have a raw total below 2^-1022, `1.0 / total` overflows
            r.violation("subnormal-total", {"retained_total": "below 2^-1022", "renormalisation": "scale_by(1.0 / total)"},
                        f"{c['op']}: {detail}", observed={"line": case_line(c), "impl": il[:200]})
            continue
        corr_ok = False
        key = (c["op"], status)
        if key in seen:
            continue
        seen.add(key)
        c2 = shrink(r, c, status)
        il2 = r.impl("peaks", [case_line(c2)])[0]
        dl2 = r.model("peaks", [case_line(c2)])[0]
        _, detail2 = compare(c2, il2, dl2)
        n = len(c2["peaks"]) if c2["op"] != "eq" else (len(c2["a"]), len(c2["b"]))
        r.violation(c["op"], {"op": c["op"], "status": status}, f"{c['op']}: {detail2 or detail}",
                    expected=dl2.split("\t")[1] if "\t" in dl2 else dl2, observed={"line": case_line(c2), "impl": il2, "peaks": str(n)},
                    model=dl2.split("\t")[0], kind="corr_broken" if status == "corr" else "impl_vs_spec")
    r.coverage["boundary_skipped"] = skipped
    r.coverage["op_histogram"] = hist
    r.oblige(f"correspondence: TheoreticalIsotopicPattern operations of {prop} agree with the model and the exact oracle",
             "corr", corr_ok)


def shrink(r, c, status):
    if c["op"] == "eq":
        return c

    def fails(peaks):
        c2 = dict(c, peaks=peaks, origin=peaks[0][0] if peaks else c["origin"])
        il = r.impl("peaks", [case_line(c2)])[0]
        dl = r.model("peaks", [case_line(c2)])[0]
        return compare(c2, il, dl)[0] == status
    try:
        peaks = ddmin(c["peaks"], fails) if len(c["peaks"]) > 1 else c["peaks"]
        return dict(c, peaks=peaks, origin=peaks[0][0] if peaks else c["origin"])
    except Exception:
        return c
