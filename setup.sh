#!/bin/sh
# Build the framework from files on disk only (offline): Rust harness, Gen/*.lean, every Lean
# module of every property, the native driver.
set -e
cd "$(dirname "$0")"
export CARGO_NET_OFFLINE=true
mkdir -p work
(cd harness && cargo build --offline --quiet)
# the same harness under AddressSanitizer (nightly toolchain) for the C17 replay; its absence is tolerated
(cd harness && RUSTFLAGS="-Zsanitizer=address" CARGO_TARGET_DIR="$PWD/target-asan" \
   cargo +nightly build --offline --quiet --target x86_64-unknown-linux-gnu) || echo "setup: ASan harness not built"
./harness/target/debug/harness dump-table > work/dump.jsonl
python3 tools/gen_table.py work/dump.jsonl "${VERIF_REPO:-/repo}" lean/ChemProofs/Gen > /dev/null
python3 tools/gen_consts.py "${VERIF_REPO:-/repo}" lean/ChemProofs/Gen > /dev/null
cd lean
MODS=$(cd ChemProofs && ls Props/*.lean Inst/*.lean 2>/dev/null | sed 's/\.lean$//; s#/#.#g; s/^/ChemProofs./')
lake build driver $MODS
