#!/usr/bin/env python3
"""anchors.py lock [repo]   rewrite /verif/anchors.lock.json: a normalised hash of every source file a property is
anchored in (comments, blank lines, indentation and #[cfg(test)] modules removed), taken at the tree the models
were last validated against.  `drift(prop, repo)` lists the anchored files of a property whose code differs
from that tree: the quick tier then repeats its random streams under further seeds (more search where the
code moved; a difference alone is never reported as a violation)."""
import hashlib, json, re, sys
from pathlib import Path

ROOT = Path(__file__).resolve().parent.parent
LOCK = ROOT / "anchors.lock.json"


def anchors():
    out = {}
    for l in (ROOT / "properties.jsonl").read_text().splitlines():
        if l.strip():
            d = json.loads(l)
            out[d["id"]] = list(d.get("anchors", {}).get("files", []))
    return out


def norm_hash(path: Path):
    try:
        text = path.read_text(errors="replace")
    except OSError:
        return None
    if path.suffix == ".rs":
        cut = text.find("#[cfg(test)]\nmod test")
        if cut >= 0:
            text = text[:cut]
        text = re.sub(r"/\*.*?\*/", "", text, flags=re.S)
        lines = []
        for l in text.splitlines():
            l = re.sub(r"//.*", "", l).strip()
            if l:
                lines.append(re.sub(r"\s+", " ", l))
        text = "\n".join(lines)
    return hashlib.sha256(text.encode()).hexdigest()


NAMED = {"EPSILON": 2.220446049250313e-16, "MAX": None, "MIN": None, "MIN_POSITIVE": 2.2250738585072014e-308}
INT_LIMITS = {"u8": 255, "u16": 65535, "u32": 4294967295, "i8": 127, "i16": 32767, "i32": 2147483647, "usize": None, "i64": None, "u64": None}


def literals(path: Path):
    """numeric literals (and named numeric constants such as f64::EPSILON, u16::MAX) in the code of a source file, as a sorted
    list of strings — comments and #[cfg(test)] modules removed"""
    try:
        text = path.read_text(errors="replace")
    except OSError:
        return []
    if path.suffix != ".rs":
        return []
    cut = text.find("#[cfg(test)]\nmod test")
    if cut >= 0:
        text = text[:cut]
    text = re.sub(r"/\*.*?\*/", "", text, flags=re.S)
    text = re.sub(r"//.*", "", text)
    text = re.sub(r'"(?:[^"\\]|\\.)*"', '""', text)
    out = re.findall(r"(?<![\w.])\d[\d_]*(?:\.\d+)?(?:[eE][-+]?\d+)?(?:_?[iuf]\d+)?(?![\w.])", text)
    out += re.findall(r"\b(?:f64|f32|i32|u16|u32|u8|i16|usize|i64|u64)::(?:EPSILON|MAX|MIN|MIN_POSITIVE)\b", text)
    out += re.findall(r"\bas (?:u8|u16|i16|i8)\b", text)
    return sorted(out)


SRC = ROOT / "anchors_src"


def lock(repo):
    files = sorted({f for fs in anchors().values() for f in fs})
    d = {f: norm_hash(Path(repo) / f) for f in files}
    d["__literals__"] = {f: literals(Path(repo) / f) for f in files}
    LOCK.write_text(json.dumps(d, indent=1) + "\n")
    # a copy of the anchored Rust sources at the validated tree (for the changed-line coverage obligation)
    import shutil
    if SRC.exists():
        shutil.rmtree(SRC)
    for f in files:
        if f.endswith(".rs") and not f.endswith("table.rs") and (Path(repo) / f).exists():
            (SRC / f).parent.mkdir(parents=True, exist_ok=True)
            shutil.copy(Path(repo) / f, SRC / f)
    print(f"locked {len(files)} files")


def _code(line):
    return re.sub(r"\s+", " ", re.sub(r"//.*", "", line)).strip()


def changed_lines(prop, repo):
    """{file: [(line number in the CURRENT file, text)]}: lines of the anchored Rust files of `prop` that are new or modified
    with respect to the validated tree and hold code (comments, blank lines, braces and #[cfg(test)] modules ignored)"""
    import difflib
    out = {}
    for f in anchors().get(prop, []):
        old_p, new_p = SRC / f, Path(repo) / f
        if not old_p.exists() or not new_p.exists():
            continue
        old = old_p.read_text(errors="replace").split("\n")
        new = new_p.read_text(errors="replace").split("\n")
        cut = next((i for i, l in enumerate(new) if l.strip().startswith("#[cfg(test)]")), len(new))
        sm = difflib.SequenceMatcher(a=[_code(l) for l in old], b=[_code(l) for l in new], autojunk=False)
        lines = []
        for tag, i1, i2, j1, j2 in sm.get_opcodes():
            if tag in ("replace", "insert"):
                for j in range(j1, j2):
                    c = _code(new[j])
                    if j < cut and c and c not in ("{", "}", "};", "})", "});", "),", ")", "]", "],", "else {", "} else {") and not c.startswith(("#[", "use ", "///", "//!", "*", "/*")):
                        lines.append((j + 1, new[j].strip()))
        if lines:
            out[f] = lines
    return out


def dictionary(prop, repo):
    """numbers that appear in the anchored code of `prop` NOW and did not at the validated tree: (ints, floats).  A changed
    function that compares against 4096, 8, 65536 or f64::EPSILON says where its behaviour may bend; the generators add
    cases at and around these values (sizes, lengths, counts, requests, magnitudes)."""
    if not LOCK.exists():
        return [], []
    lk = json.loads(LOCK.read_text()).get("__literals__", {})
    ints, floats = set(), set()
    for f in anchors().get(prop, []):
        if f not in lk:
            continue
        old = list(lk[f])
        for tok in literals(Path(repo) / f):
            if tok in old:
                old.remove(tok)
                continue
            if tok.startswith("as "):
                lim = INT_LIMITS.get(tok[3:])
                if lim:
                    ints.add(lim + 1)
                continue
            if "::" in tok:
                ty, name = tok.split("::")
                if name == "EPSILON":
                    floats.add(2.220446049250313e-16 if ty == "f64" else 1.1920929e-07)
                elif name == "MIN_POSITIVE":
                    floats.add(2.2250738585072014e-308)
                elif name == "MAX" and INT_LIMITS.get(ty):
                    ints.add(INT_LIMITS[ty])
                continue
            t = re.sub(r"_?[iuf]\d+$", "", tok).replace("_", "")
            try:
                if re.fullmatch(r"\d+", t):
                    ints.add(int(t))
                else:
                    floats.add(float(t))
            except ValueError:
                pass
    return sorted(i for i in ints if i > 2), sorted(x for x in floats if x not in (0.0, 1.0))


def drift(prop, repo):
    if not LOCK.exists():
        return []
    lk = json.loads(LOCK.read_text())
    return [f for f in anchors().get(prop, []) if f in lk and norm_hash(Path(repo) / f) != lk[f]]


if __name__ == "__main__":
    if sys.argv[1] == "lock":
        lock(sys.argv[2] if len(sys.argv) > 2 else "/repo")
    else:
        print(drift(sys.argv[2], sys.argv[3] if len(sys.argv) > 3 else "/repo"))
