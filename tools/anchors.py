#!/usr/bin/env python3
"""anchors.py lock [repo]   rewrite /verif/anchors.lock.json: a normalised hash of every source file a property is
anchored in (comments, blank lines, indentation and #[cfg(test)] modules removed), taken at the tree the models
were last validated against.  `drift(prop, repo)` lists the anchored files of a property whose code differs
from that tree: the quick tier then repeats its random streams under further seeds (more search where the
code moved; a difference alone is never reported as a violation)."""
import hashlib, json, re, sys
from pathlib import Path

ROOT = Path(__file__).resolve().parent.parent
LOCK = ROOT / "anchors.lock.json"


def anchors():
    out = {}
    for l in (ROOT / "properties.jsonl").read_text().splitlines():
        if l.strip():
            d = json.loads(l)
            out[d["id"]] = list(d.get("anchors", {}).get("files", []))
    return out


def norm_hash(path: Path):
    try:
        text = path.read_text(errors="replace")
    except OSError:
        return None
    if path.suffix == ".rs":
        cut = text.find("#[cfg(test)]\nmod test")
        if cut >= 0:
            text = text[:cut]
        text = re.sub(r"/\*.*?\*/", "", text, flags=re.S)
        lines = []
        for l in text.splitlines():
            l = re.sub(r"//.*", "", l).strip()
            if l:
                lines.append(re.sub(r"\s+", " ", l))
        text = "\n".join(lines)
    return hashlib.sha256(text.encode()).hexdigest()


def lock(repo):
    files = sorted({f for fs in anchors().values() for f in fs})
    LOCK.write_text(json.dumps({f: norm_hash(Path(repo) / f) for f in files}, indent=1) + "\n")
    print(f"locked {len(files)} files")


def drift(prop, repo):
    if not LOCK.exists():
        return []
    lk = json.loads(LOCK.read_text())
    return [f for f in anchors().get(prop, []) if f in lk and norm_hash(Path(repo) / f) != lk[f]]


if __name__ == "__main__":
    if sys.argv[1] == "lock":
        lock(sys.argv[2] if len(sys.argv) > 2 else "/repo")
    else:
        print(drift(sys.argv[2], sys.argv[3] if len(sys.argv) > 3 else "/repo"))
