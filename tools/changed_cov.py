#!/usr/bin/env python3
"""Changed-line coverage obligation.

When the anchored code of a property differs from the validated tree, every NEW or MODIFIED line of code must be executed by
the property's own correspondence streams: a branch the generated cases never enter is tied to the model by nothing, whatever
the differential runs show.  `uncovered(prop)` rebuilds the harness with -C instrument-coverage (nightly), runs
`./check <prop> quick` through it, and returns the changed lines whose execution count is 0 (None when the coverage tooling is
unavailable — the obligation is then not raised, and the evidence says so)."""
import json, os, re, shutil, subprocess, sys, tempfile
from pathlib import Path

ROOT = Path(__file__).resolve().parent.parent
sys.path.insert(0, str(ROOT))
from tools.anchors import changed_lines  # noqa: E402


def _sh(cmd, cwd=None, env=None, timeout=3600):
    e = dict(os.environ)
    e["CARGO_NET_OFFLINE"] = "true"
    if env:
        e.update(env)
    p = subprocess.run(cmd, cwd=cwd, env=e, stdout=subprocess.PIPE, stderr=subprocess.STDOUT, timeout=timeout)
    return p.returncode, p.stdout.decode("utf-8", "replace")


def uncovered(prop, repo):
    ch = changed_lines(prop, repo)
    if not ch:
        return []
    rc, sysroot = _sh(["rustc", "+nightly", "--print", "sysroot"])
    tools = Path(sysroot.strip()) / "lib/rustlib/x86_64-unknown-linux-gnu/bin"
    if rc != 0 or not (tools / "llvm-cov").exists():
        return None
    h = ROOT / "harness"
    rc, out = _sh(["cargo", "+nightly", "build", "--offline", "--quiet", "--target", "x86_64-unknown-linux-gnu"], cwd=h,
                  env={"RUSTFLAGS": "-C instrument-coverage", "CARGO_TARGET_DIR": str(h / "target-cov")})
    binp = h / "target-cov/x86_64-unknown-linux-gnu/debug/harness"
    if rc != 0 or not binp.exists():
        return None
    raw = ROOT / "work" / "changed_cov" / prop
    shutil.rmtree(raw, ignore_errors=True)
    raw.mkdir(parents=True)
    evp = ROOT / "evidence" / f"{prop}.json"
    ev_backup = evp.read_text() if evp.exists() else None
    rp_backup = {p: p.read_text() for p in (ROOT / "replays").glob(f"{prop}-*.json")}
    _sh([str(ROOT / "check"), prop, "quick"], cwd=ROOT, timeout=3000,
        env={"VERIF_HARNESS_BIN": str(binp), "LLVM_PROFILE_FILE": str(raw / "%p-%8m.profraw"), "VERIF_NO_ESCALATE": "1",
             "VERIF_NO_CHANGECOV": "1"})
    if ev_backup is not None:
        evp.write_text(ev_backup)
    for p in (ROOT / "replays").glob(f"{prop}-*.json"):
        p.unlink()
    for p, t in rp_backup.items():
        p.write_text(t)
    raws = list(raw.glob("*.profraw"))
    if not raws:
        return None
    prof = raw / "all.profdata"
    rc, out = _sh([str(tools / "llvm-profdata"), "merge", "-sparse", *map(str, raws), "-o", str(prof)])
    if rc != 0:
        return None
    res = []
    for f, lines in ch.items():
        src = str(Path(repo) / f)
        rc, show = _sh([str(tools / "llvm-cov"), "show", str(binp), f"-instr-profile={prof}", src])
        if rc != 0:
            return None
        counts = {}
        for l in show.splitlines():
            m = re.match(r"^\s*(\d+)\|\s*([0-9.kMGTE]*)\|", l)
            if m:
                counts[int(m.group(1))] = m.group(2)
        for ln, text in lines:
            c = counts.get(ln)
            if c == "0":
                res.append(f"{f}:{ln}: {text[:100]}")
    return res


if __name__ == "__main__":
    print(json.dumps(uncovered(sys.argv[1], sys.argv[2] if len(sys.argv) > 2 else "/repo"), indent=1))
