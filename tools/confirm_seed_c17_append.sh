#!/bin/sh
# like confirm_seed.sh, for seeds whose demonstration is a #[cfg(test)] module to be appended to bindings/c/src/lib.rs
set -u
SD=$1
WT=/tmp/confirm_wt_$$
export CARGO_NET_OFFLINE=true CARGO_TARGET_DIR=/tmp/confirm_target
git -C /repo worktree add --detach $WT HEAD -q || exit 3
cd $WT
git apply "$SD/patch.diff" || { echo '{"applies": false}'; cd /; git -C /repo worktree remove --force $WT; exit 0; }
suite=$(cargo test --workspace --no-fail-fast --offline 2>&1 | grep -E "^test result" | tr '\n' ' ')
case "$suite" in *"41 passed; 0 failed"*) s_ok=true;; *) s_ok=false;; esac
cat "$SD/seed_demo.rs" >> bindings/c/src/lib.rs
if cargo test --offline --manifest-path bindings/c/Cargo.toml >/tmp/confirm_demo_with.log 2>&1; then d_with=pass; else d_with=fail; fi
git checkout -- . 
cat "$SD/seed_demo.rs" >> bindings/c/src/lib.rs
if cargo test --offline --manifest-path bindings/c/Cargo.toml >/tmp/confirm_demo_without.log 2>&1; then d_without=pass; else d_without=fail; fi
git checkout -- .
echo "{\"applies\": true, \"suite_passes_with_patch\": $s_ok, \"demo_with_patch\": \"$d_with\", \"demo_without_patch\": \"$d_without\", \"head\": \"$(git rev-parse --short HEAD)\"}"
cd /
git -C /repo worktree remove --force $WT
