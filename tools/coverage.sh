#!/bin/sh
# Which regions of the anchored source do the correspondence streams actually execute?
# Builds the harness with -C instrument-coverage (nightly, own target dir), runs every check's generators
# through it, and writes work/coverage/{summary.txt, uncovered.txt}.  A development tool: a region no
# generated case reaches is tied to the model by nothing.   usage: tools/coverage.sh [quick|thorough] [checks...]
set -e
cd "$(dirname "$0")/.."
TIER=${1:-quick}; shift || true
CHECKS=${*:-C01 C02 C03 C04 C05 C06 C07 C08 C09 C10 C11 C12 C13 C14 C15 C16 C17}
TC=$(rustc +nightly --print sysroot)/lib/rustlib/x86_64-unknown-linux-gnu/bin
(cd harness && RUSTFLAGS="-C instrument-coverage" CARGO_TARGET_DIR="$PWD/target-cov" \
   cargo +nightly build --offline --quiet --target x86_64-unknown-linux-gnu 2>/dev/null)
BIN=$PWD/harness/target-cov/x86_64-unknown-linux-gnu/debug/harness
rm -rf work/coverage; mkdir -p work/coverage/raw
EVBAK=$(mktemp -d); cp -r evidence/. "$EVBAK"/
for c in $CHECKS; do
  VERIF_HARNESS_BIN=$BIN LLVM_PROFILE_FILE="$PWD/work/coverage/raw/$c-%p-%8m.profraw" VERIF_NO_ESCALATE=1 \
    ./check $c $TIER > work/coverage/$c.log 2>&1 || echo "$c: exit $?"
done
cp -r "$EVBAK"/. evidence/; rm -rf "$EVBAK"
$TC/llvm-profdata merge -sparse work/coverage/raw/*.profraw -o work/coverage/all.profdata
$TC/llvm-cov report $BIN -instr-profile=work/coverage/all.profdata --ignore-filename-regex='(registry|rustc|harness/src|table\.rs)' > work/coverage/summary.txt
$TC/llvm-cov show $BIN -instr-profile=work/coverage/all.profdata --ignore-filename-regex='(registry|rustc|harness/src|table\.rs)' \
   --show-line-counts-or-regions --show-branches=count > work/coverage/show.txt 2>/dev/null || \
$TC/llvm-cov show $BIN -instr-profile=work/coverage/all.profdata --ignore-filename-regex='(registry|rustc|harness/src|table\.rs)' > work/coverage/show.txt
python3 tools/coverage_uncovered.py work/coverage/show.txt > work/coverage/uncovered.txt
cat work/coverage/summary.txt
