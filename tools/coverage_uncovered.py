#!/usr/bin/env python3
"""list the source lines with execution count 0 outside #[cfg(test)] modules, from `llvm-cov show` text"""
import re, sys
cur = None
in_test = False
out = {}
for l in open(sys.argv[1], errors="replace"):
    m = re.match(r"^(/\S+\.rs):$", l.strip())
    if m:
        cur = m.group(1); in_test = False; continue
    m = re.match(r"^\s*(\d+)\|\s*([0-9.kMG]*)\|(.*)$", l.rstrip("\n"))
    if not m or cur is None:
        continue
    ln, cnt, src = int(m.group(1)), m.group(2), m.group(3)
    if "#[cfg(test)]" in src:
        in_test = True
    if in_test:
        continue
    if cnt == "0":
        out.setdefault(cur, []).append((ln, src.strip()))
for f, ls in out.items():
    print(f"== {f}: {len(ls)} uncovered lines")
    for ln, src in ls:
        print(f"  {ln}: {src[:140]}")
