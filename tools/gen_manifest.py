#!/usr/bin/env python3
"""Writes /verif/MANIFEST.json from the table below (one place to keep claims current)."""
import json
from pathlib import Path

ROOT = Path(__file__).resolve().parent.parent

NOTE_COMMON = ("Trusted: Lean 4.33 kernel; axioms propext/Classical.choice/Quot.sound only (audited per theorem); "
               "the translator (harness dump-table + tools/gen_*.py); the correspondence check and its generators; "
               "std collections, str::parse and f64 arithmetic are modelled, not verified.")

CLAIMED = {
    "C12": dict(
        text=("Proof by kernel evaluation over the whole table: the table and data/nist_mass.json are re-translated "
              "to Lean on every run and every clause of the property is a `decide +kernel` theorem over all 120 "
              "elements / all isotopes (the property's quantifier is this finite table); `data/build.rs` is modelled "
              "bit-exactly (round-to-nearest-even doubles, `{:.6}`) and `table = build(nist)` is a theorem; "
              "`index_isotopes` is proved correct for every element, not only tabulated ones."),
        design_ref="§7.12",
        note=NOTE_COMMON + " serde_json's decimal->f64 conversion is assumed correctly rounded.",
        technique="Lean 4 kernel evaluation (decide +kernel) over the regenerated table + parametric lemmas"),
}

CLAIMED.update({
    "C02": dict(
        text=("Proof: the mass-cache invariant (cache empty or equal to the mass of the current entries) is proved "
              "preserved by every operation of the public mutation/arithmetic API, for all four forms of a "
              "composition, and lifted by induction to histories of any length (`run_mass`); additivity over +/- and "
              "linearity over * are theorems about the entry lists.  The model (Lean, import-free) is tied to the "
              "code by executing the same generated histories on the real types and on the model."),
        design_ref="§7.2",
        note=NOTE_COMMON + " Counts are unbounded integers (the property excludes i32 overflow); f64 summation is idealised as exact.",
        technique="Lean 4 invariant proof by induction over operation histories + differential correspondence"),
    "C04": dict(
        text=("Proof: get-level laws for +, -, *, unary minus and the constructors are theorems for all compositions "
              "and scalars; a refinement theorem shows every non-string operation of the model of the code is one step "
              "of a finite-map specification (`Key -> Option Int`), and uniqueness of keys is an invariant of every "
              "public operation.  Operands-unchanged and agreement of the operator forms are theorems about the "
              "register machine.  Props/C04I32.lean: which operators compute no out-of-range intermediate when the result fits i32 "
              "(+, *, unary -, and - since the D31 fix), with witnesses for the old subtraction and for the constructors' running "
              "totals (known finding D32).  Tied to the code by differential execution over all nine operand pairings."),
        design_ref="§7.4",
        note=NOTE_COMMON + " i32 overflow excluded by the property; HashMap iteration order is unobservable in the model (entries compared sorted).",
        technique="Lean 4 refinement proof to a finite-map spec + differential correspondence"),
    "C06": dict(
        text=("Proof: a lock-step theorem — two register files holding the same entries in different representations "
              "(list, map, enum-wrapped) stay equal under every public operation and every read returns the same "
              "value — lifted to histories of any length; conversions preserve every entry; `==` holds iff same keys "
              "with same counts (pigeonhole via Batteries); bracket-free string keys never read or write a "
              "fixed-isotope entry; lockstep_trace: every value read and every panic flag along two runs agree, for histories of "
              "any length.  The same histories are run on the four real forms in lock-step and compared "
              "with each other, the model and the spec."),
        design_ref="§7.6",
        note=NOTE_COMMON + " The lock-step theorem assumes plain keys present in a composition are table symbols (true of every key the API can create from the table).",
        technique="Lean 4 lock-step (bisimulation-style) proof over histories + differential correspondence on four forms"),
})

CLAIMED.update({
    "C10": dict(
        text=("Proof: neutral_mass inverts mass_charge_ratio for every non-zero charge (field identity over Q); the "
              "guarded conversion is the identity at charge 0 and strictly increasing otherwise; the Poisson pattern "
              "at charge z is the neutral pattern with only m/z rescaled (theorem).  For the convolution and BRAIN "
              "generators the same statement is checked on the implementation itself (pattern at charge z against "
              "pattern at charge 0 of the same call: bit-identical intensities, m/z to 1e-9), which needs no model."),
        design_ref="§7.10",
        note=NOTE_COMMON + " Partial: the charge theorems for the convolution and BRAIN generators rest on the impl-vs-impl comparison plus chargedMz_strictMono (sort commutes with rescaling); f64 rounding not modelled.",
        technique="Lean 4 field/order proofs over Q + impl-vs-impl differential check across charges"),
    "C13": dict(
        text=("Proof over exact rationals: normalize sums to 1 and preserves ratios, m/z, origin; scale_by/shift/"
              "clone_shifted are pointwise; the truncation loop is proved to compute the shortest non-empty prefix "
              "reaching the threshold (all peaks when never reached) via a loop invariant; ignore_below is the "
              "order-preserving filter; both renormalise.  Tied to the code by running identical dyadic inputs "
              "(exact in f64) through the real operations and the model.  Props/C13Float.lean proves total/normalize under "
              "the standard model of floating-point arithmetic (any rounding with relative error u): the exact sum of "
              "the computed intensities is within (1+u)^2/(1-u)^n of 1 (1e-14 for binary64, n <= 64), ratios are "
              "preserved up to (1+u)/(1-u); the check asserts that bound on the real outputs."),
        design_ref="§7.13",
        note=NOTE_COMMON + " Partial (floating point): the truncation / filter theorems are over Q; normalize and total are also proved under the standard rounding model (trusted: f64 satisfies it, no overflow/underflow); other f64 results compared to the exact values at 1e-11 relative, comparisons within 1e-9 of a threshold on inexact inputs skipped and counted.",
        technique="Lean 4 list/field proofs with a loop invariant + rounding-error bounds under the standard floating-point model + differential correspondence on exact dyadic inputs"),
    "C14": dict(
        text=("Proof over exact rationals: the fused truncate/filter/shift/normalise operation returns the same peaks "
              "as the step-wise pipeline (algebraic proof for every non-empty positive pattern and all thresholds); "
              "clone_drop_last and slice_normalized are their definitions, an invalid range is the slice panic; "
              "incremental_truncation equals its specification (induction on the index, cumulative-sum lemma); "
              "pattern equality is length equality plus pointwise tolerance."),
        design_ref="§7.14",
        note=NOTE_COMMON + " Partial (floating point) as for C13.",
        technique="Lean 4 algebraic and inductive proofs over Q + differential correspondence"),
    "C15": dict(
        text=("Proof over exact rationals: length n, non-negative intensities summing to 1, m/z ladder and spacing, "
              "the term ratio law inside the loop, count in 1..=maxIter, first-index (minimality) characterisation of "
              "the search loop, and monotonicity in the threshold — the last also for an order-generic loop of which "
              "the f64 code is an instance.  Model/PoissonRange.lean adds the is_finite / is_infinite branches (terms and loop variables "
              "beyond f64::MAX): Props/C15Range and C15RangeN prove length, ladder, sum 1, range 1..=maxIter and monotonicity for EVERY "
              "mass for that model, and its agreement with the plain one in range; the real outputs up to 1e9 Da are compared with it.  "
              "Model tied to the code by differential runs; constants (1800, "
              "1.0033548378, 255, proton) are re-extracted from the source on every run."),
        design_ref="§7.15",
        note=NOTE_COMMON + " Partial (floating point): overflow branches are outside the Q model; for masses up to 1e9 only length, sum, spacing, range and monotonicity are checked, on the implementation.",
        technique="Lean 4 loop-invariant proofs over Q (+ order-generic monotonicity) + differential correspondence"),
})

CLAIMED.update({
    "C16": dict(
        text=("Proof: parsing an element specification never panics and is sound (succeeds only for a table symbol "
              "optionally followed by one bracketed u16 numeral of an isotope the element has) for every string and "
              "every table; string reads return 0 for anything that denotes no present entry and agree with access by "
              "the parsed specification.  The round trip, the agreement with an independent specification of the "
              "text format and the side conditions of the read theorems are kernel-evaluated over every (element, "
              "isotope | none) pair of the regenerated table.  Correspondence: all 444 rendered keys, all strings up "
              "to length 4 (quick) / 5-6 (thorough) over a 13-character alphabet, mutations and random strings, "
              "through parse / FromStr / the helper and as read keys on all four composition forms."),
        design_ref="§7.16",
        note=NOTE_COMMON + " Non-ASCII character classes are parameters of the model; the driver's table for the characters the generators use is checked against Rust's on every run.",
        technique="Lean 4 parametric proofs + decide +kernel over the whole table + exhaustive short-string correspondence"),
})

CLAIMED.update({
    "C01": dict(
        text=("Model of the parser as it is written (eight states, twelve offsets, every slice a possible panic, "
              "recursive group parsing with fuel) in Lean; abstract syntax, rendering and denotation of the "
              "documented grammar as the specification; theorems listed in Props/C01.lean; Props/C01I32.lean: no intermediate value of "
              "the i32 computation exceeds the final totals when every group multiplier is >= 1 (witness for 0: known finding D34).  Tied to the code by "
              "running every table key, every token adjacency of the state machine, random nested formulas and "
              "2000-deep nesting through all eight public entry points, the model and a table-driven grammar oracle."),
        design_ref="§7.1",
        note=NOTE_COMMON + " Counts are unbounded integers (overflow excluded by the property). Partial: see Props/C01.lean for which statements are proved for all ASTs and which rest on the correspondence.",
        technique="Lean 4 model of the state machine + structural proofs over the grammar AST + differential correspondence with a grammar oracle"),
    "C05": dict(
        text=("Totality: the Lean model makes every slice, lookup and number parse an explicit outcome; theorems in "
              "Props/C05.lean show no reachable panic for every string, table and character class.  The converse is "
              "proved too (Props/C05Sound.lean, parse_sound): whatever the parser accepts is the rendering of a "
              "non-empty raw syntax tree that is well-formed over the table, and the composition returned is its "
              "denotation; Props/C05Rejects.lean derives the rejection of foreign characters, unbalanced parentheses, "
              "empty groups, empty text and bad starts, instantiated at the regenerated table (Inst/C05.lean).  Correspondence: ALL strings up to length 4 (quick) / 5-7 "
              "(thorough) over an 18-class alphabet, mutations of valid formulas, random long strings, deep and "
              "unbalanced nesting, in a child process with a stall watchdog; a composition may be returned only when "
              "the independent grammar oracle accepts (or leaves unspecified: `[]`, `[0]`)."),
        design_ref="§7.5",
        note=NOTE_COMMON + " Partial (runtime): stack exhaustion and aborts are observed on the child process, not proved.",
        technique="Lean 4 panic-freedom and soundness proofs of the parser model (state invariant, induction on fuel) + exhaustive short-string differential correspondence"),
    "C07": dict(
        text=("Model of to_formula (C, H, then entries sorted by symbol and isotope) and of every FromStr; theorems in "
              "Props/C07.lean.  Correspondence: Display on all four forms and permuted insertion orders must be "
              "identical for equal compositions, parse back (all entry points) and serde JSON (Vec, Map, "
              "ElementSpecification) must return the same entries, and the text must equal the model's."),
        design_ref="§7.7",
        note=NOTE_COMMON + " One recorded known finding: the table key e* renders as text outside the grammar.",
        technique="Lean 4 model + canonical-order proofs + differential round-trip correspondence"),
})

CLAIMED.update({
    "C11": dict(
        text=("Model of convolve_with / convolve_pow (repeated squaring with remainder recursion) / isotopic_convolution "
              "over exact rationals and the specification `arrangements` (every ordered assignment of an isotope to each "
              "atom); theorems in Props/C11.lean and, for a positive threshold at the level of the whole function, Props/C11T.lean "
              "(exactly the arrangements of probability >= t, renormalised; needs abundances summing to at most 1 — counterexample "
              "proved, hypothesis discharged for the compiled table in Inst/C11.lean).  Correspondence: the real peak list is compared as a sorted multiset "
              "with the model at the same threshold and with the exact enumeration (threshold 0: equality; threshold t: "
              "completeness above t, ratios, floor), on compositions that exercise every branch of the power loop."),
        design_ref="§7.11",
        note=NOTE_COMMON + " Partial (floating point): exact-rational theorems; masses compared to 1e-9 Da and intensities to 1e-9 relative. HashMap iteration order of isotopes/entries is unobservable (multiset comparison).",
        technique="Lean 4 multiset/permutation proofs over Q + differential correspondence against an exact enumeration"),
})

CLAIMED.update({
    "C03": dict(
        text=("Model of the BRAIN pipeline exactly as written (Vieta normalisation, Newton-identity recurrences in both "
              "directions, per-element constants, padding/update, probability and centre-mass vectors, cut, sort) over "
              "exact rationals, and an independent specification of the aggregated isotope distribution by polynomial "
              "multiplication; theorems in Props/C03.lean.  Correspondence: X1 for every element of the table, pairs over "
              "a count grid, random compositions, against the exact oracle (m/z to 1e-6, ratios to 1e-9) and the model.  "
              "The recorded defect D5 (isotope ladders with gaps or isotopes lighter than the most abundant one) is "
              "reproduced by the model and listed per element in known_findings.json."),
        design_ref="§7.3",
        note=NOTE_COMMON + " Partial (floating point): theorems are over Q; f64 error is bounded only on the generated compositions, at the property's tolerances. exp(sum ln) idealised as a product (common scale factor).",
        technique="Lean 4 model + polynomial/power-series proofs over Q + differential correspondence against an exact oracle"),
    "C08": dict(
        text=("Model of the generator's cache of per-element constants (checkout / receive / populate_from_cache / update) "
              "next to the stateless path; purity theorems in Props/C08.lean.  Correspondence: ALL histories up to length "
              "3 (quick) / 4 (thorough) over a pool of requests sharing elements, random histories up to 200 calls, each "
              "call compared with the stateless function (1e-12) and, sampled, with the exact model; 16 threads with own "
              "generators and stateless calls against single-threaded results; structural scan for shared mutable state."),
        design_ref="§7.8",
        note=NOTE_COMMON + " Partial (concurrency): not a theorem about thread schedules; rests on the purity theorem, Rust's &mut exclusivity (trusted), the structural scan and the 16-thread observation.",
        technique="Lean 4 cache-invariant proof over call histories + exhaustive short-history differential correspondence"),
    "C09": dict(
        text=("Model of NumPeaksSpec resolution (both conversions, saturating arithmetic, update_order), max_variants, the "
              "1e-10 cut loop and the sort; shape theorems in Props/C09.lean; Props/C09Mz + Inst/C09Mz: the returned m/z are STRICTLY "
              "increasing for every composition over the 67 domain elements up to a resolved order of 108; Inst/C09Req, Inst/Consts: "
              "the constants hypotheses discharged for the translated constants (= the literals the property names).  Correspondence: every integer request in "
              "-3..320, i32 extremes, usize/Option forms and fractions on ten compositions plus the C03 cases, a quarter of "
              "them also through IsotopicDistribution::from_composition / from_composition_and_cache; "
              "non-emptiness, strictly increasing m/z within [lightest, heaviest], normalisation over the requested "
              "range, coverage of every variant with share >= 2e-10 judged against the exact distribution."),
        design_ref="§7.9",
        note=NOTE_COMMON + " Partial: strict increase of the centre masses is proved for variants j <= 107 of every composition over Dom table elements (Props/C09Strict, Inst/C09Strict) and observed against the exact oracle beyond that; f64 not modelled. D5 findings as for C03.",
        technique="Lean 4 proofs about request resolution, cut and sort + differential correspondence against an exact oracle"),
})

CLAIMED.update({
    "C17": dict(
        text=("Model of the binding as a table of live handles with one transition per exported function, each defined from "
              "the Rust-API models (formula parser, element-specification parser, enum composition).  Theorems: no call "
              "within the contract aborts (lifted from parse_no_panic and spec_no_panic), a non-zero code leaves the handle "
              "table untouched with a null out-pointer, parse_formula yields a handle exactly when the parser accepts, "
              "mass/get are the composition's; Props/C17Handles.lean: the handle table keeps pairwise distinct live handles below the "
              "next handle along call sequences of any length, alloc issues a fresh handle, free removes exactly one.  Correspondence: call sequences up to length 40 "
              "with valid, malformed and non-UTF-8 byte strings through the real extern \"C\" functions in a child process; "
              "return code, out-pointer and mass + six probe reads of every live handle compared after every call; every "
              "sequence is replayed in a build of the harness under AddressSanitizer + LeakSanitizer (nightly "
              "-Zsanitizer=address) and a report is narrowed to a minimal call list."),
        design_ref="§7.17",
        note=NOTE_COMMON + " Partial (memory safety): no Lean model expresses invalid access / double free / leak; handle bookkeeping is proved, Rust ownership trusted, the child's exit status observed and every generated sequence replayed under AddressSanitizer + LeakSanitizer. to_string_lossy is performed by the real code and passed to the model.",
        technique="Lean 4 state-machine refinement to the Rust-API models + differential correspondence through the C ABI (plain and AddressSanitizer builds)"),
})
CLAIMED["C10"]["text"] = ("Proof: neutral_mass inverts mass_charge_ratio for every non-zero charge (field identity over Q); the guarded "
    "conversion is the identity at charge 0 and strictly increasing otherwise; for ALL THREE generators (Poisson, fine-structure "
    "convolution, BRAIN incl. the caching generator) the pattern at charge z is proved to be the neutral pattern with only m/z "
    "rescaled (same length, same intensities; the BRAIN sort commutes with the strictly increasing rescaling).  The same statement "
    "is checked on the implementation itself (charge z against charge 0 of the same call: bit-identical intensities, m/z to 1e-9).")
CLAIMED["C10"]["note"] = NOTE_COMMON + " f64 rounding not modelled (m/z compared to 1e-9 relative)."
CLAIMED["C10"]["technique"] = "Lean 4 field/order proofs over Q for all three generator models + impl-vs-impl differential check across charges"

PENDING_REASON = "check not built yet in this session; no claim is made until its model, theorems and correspondence run exist"


def main():
    props = [json.loads(l) for l in (ROOT / "properties.jsonl").read_text().splitlines() if l.strip()]
    checks = []
    na = []
    for p in props:
        pid = p["id"]
        c = CLAIMED.get(pid)
        if c is None:
            na.append(dict(property_id=pid, reason=PENDING_REASON))
            continue
        checks.append(dict(
            property_id=pid,
            quick_cmd=f"./check {pid} quick",
            thorough_cmd=f"./check {pid} thorough",
            evidence_file=f"/verif/evidence/{pid}.json",
            replay_cmd_template=f"./check {pid} --replay {{path}}",
            engine="lean4-proof+correspondence",
            level_claimed=dict(category="proof", text=c["text"], design_ref=c["design_ref"]),
            level_note=c["note"],
            technique=c["technique"],
        ))
    manifest = dict(
        version=1,
        setup_cmd="./setup.sh",
        hooks=dict(
            guard="chemical_elements_verif",
            enable="no hook is needed: every observable used by the checks is public API; the harness is a separate crate with a path dependency on /repo",
            baseline_off_cmd="cd /repo && cargo test --workspace --no-fail-fast --offline",
            source_commits=[],
            add_only=True,
        ),
        engines=[dict(
            name="lean4-proof+correspondence",
            path="/verif/lean (theorems, models, driver), /verif/harness (Rust interpreter of the same op lines), /verif/orchestrator",
            serves_properties=sorted(CLAIMED),
            kind_free_text="machine-checked proof in Lean 4 about executable models; models tied to /repo by a translator (data, constants) and a differential correspondence check (code)",
        )],
        checks=checks,
        not_applicable=na,
        notes="See DESIGN.md. Genuine defects repaired in /repo are listed under 'fixed' in known_findings.json.",
    )
    (ROOT / "MANIFEST.json").write_text(json.dumps(manifest, indent=1) + "\n")


if __name__ == "__main__":
    main()
