#!/usr/bin/env python3
"""Writes /verif/MANIFEST.json from the table below (one place to keep claims current)."""
import json
from pathlib import Path

ROOT = Path(__file__).resolve().parent.parent

NOTE_COMMON = ("Trusted: Lean 4.33 kernel; axioms propext/Classical.choice/Quot.sound only (audited per theorem); "
               "the translator (harness dump-table + tools/gen_*.py); the correspondence check and its generators; "
               "std collections, str::parse and f64 arithmetic are modelled, not verified.")

CLAIMED = {
    "C12": dict(
        text=("Proof by kernel evaluation over the whole table: the table and data/nist_mass.json are re-translated "
              "to Lean on every run and every clause of the property is a `decide +kernel` theorem over all 120 "
              "elements / all isotopes (the property's quantifier is this finite table); `data/build.rs` is modelled "
              "bit-exactly (round-to-nearest-even doubles, `{:.6}`) and `table = build(nist)` is a theorem; "
              "`index_isotopes` is proved correct for every element, not only tabulated ones."),
        design_ref="§7.12",
        note=NOTE_COMMON + " serde_json's decimal->f64 conversion is assumed correctly rounded.",
        technique="Lean 4 kernel evaluation (decide +kernel) over the regenerated table + parametric lemmas"),
}

CLAIMED.update({
    "C02": dict(
        text=("Proof: the mass-cache invariant (cache empty or equal to the mass of the current entries) is proved "
              "preserved by every operation of the public mutation/arithmetic API, for all four forms of a "
              "composition, and lifted by induction to histories of any length (`run_mass`); additivity over +/- and "
              "linearity over * are theorems about the entry lists.  The model (Lean, import-free) is tied to the "
              "code by executing the same generated histories on the real types and on the model."),
        design_ref="§7.2",
        note=NOTE_COMMON + " Counts are unbounded integers (the property excludes i32 overflow); f64 summation is idealised as exact.",
        technique="Lean 4 invariant proof by induction over operation histories + differential correspondence"),
    "C04": dict(
        text=("Proof: get-level laws for +, -, *, unary minus and the constructors are theorems for all compositions "
              "and scalars; a refinement theorem shows every non-string operation of the model of the code is one step "
              "of a finite-map specification (`Key -> Option Int`), and uniqueness of keys is an invariant of every "
              "public operation.  Operands-unchanged and agreement of the operator forms are theorems about the "
              "register machine.  Tied to the code by differential execution over all nine operand pairings."),
        design_ref="§7.4",
        note=NOTE_COMMON + " i32 overflow excluded by the property; HashMap iteration order is unobservable in the model (entries compared sorted).",
        technique="Lean 4 refinement proof to a finite-map spec + differential correspondence"),
    "C06": dict(
        text=("Proof: a lock-step theorem — two register files holding the same entries in different representations "
              "(list, map, enum-wrapped) stay equal under every public operation and every read returns the same "
              "value — lifted to histories of any length; conversions preserve every entry; `==` holds iff same keys "
              "with same counts (pigeonhole via Batteries); bracket-free string keys never read or write a "
              "fixed-isotope entry.  The same histories are run on the four real forms in lock-step and compared "
              "with each other, the model and the spec."),
        design_ref="§7.6",
        note=NOTE_COMMON + " The lock-step theorem assumes plain keys present in a composition are table symbols (true of every key the API can create from the table).",
        technique="Lean 4 lock-step (bisimulation-style) proof over histories + differential correspondence on four forms"),
})

PENDING_REASON = "check not built yet in this session; no claim is made until its model, theorems and correspondence run exist"


def main():
    props = [json.loads(l) for l in (ROOT / "properties.jsonl").read_text().splitlines() if l.strip()]
    checks = []
    na = []
    for p in props:
        pid = p["id"]
        c = CLAIMED.get(pid)
        if c is None:
            na.append(dict(property_id=pid, reason=PENDING_REASON))
            continue
        checks.append(dict(
            property_id=pid,
            quick_cmd=f"./check {pid} quick",
            thorough_cmd=f"./check {pid} thorough",
            evidence_file=f"/verif/evidence/{pid}.json",
            replay_cmd_template=f"./check {pid} --replay {{path}}",
            engine="lean4-proof+correspondence",
            level_claimed=dict(category="proof", text=c["text"], design_ref=c["design_ref"]),
            level_note=c["note"],
            technique=c["technique"],
        ))
    manifest = dict(
        version=1,
        setup_cmd="./setup.sh",
        hooks=dict(
            guard="chemical_elements_verif",
            enable="no hook is needed: every observable used by the checks is public API; the harness is a separate crate with a path dependency on /repo",
            baseline_off_cmd="cd /repo && cargo test --workspace --no-fail-fast --offline",
            source_commits=[],
            add_only=True,
        ),
        engines=[dict(
            name="lean4-proof+correspondence",
            path="/verif/lean (theorems, models, driver), /verif/harness (Rust interpreter of the same op lines), /verif/orchestrator",
            serves_properties=sorted(CLAIMED),
            kind_free_text="machine-checked proof in Lean 4 about executable models; models tied to /repo by a translator (data, constants) and a differential correspondence check (code)",
        )],
        checks=checks,
        not_applicable=na,
        notes="See DESIGN.md. Genuine defects repaired in /repo are listed under 'fixed' in known_findings.json.",
    )
    (ROOT / "MANIFEST.json").write_text(json.dumps(manifest, indent=1) + "\n")


if __name__ == "__main__":
    main()
