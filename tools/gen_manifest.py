#!/usr/bin/env python3
"""Writes /verif/MANIFEST.json from the table below (one place to keep claims current)."""
import json
from pathlib import Path

ROOT = Path(__file__).resolve().parent.parent

NOTE_COMMON = ("Trusted: Lean 4.33 kernel; axioms propext/Classical.choice/Quot.sound only (audited per theorem); "
               "the translator (harness dump-table + tools/gen_*.py); the correspondence check and its generators; "
               "std collections, str::parse and f64 arithmetic are modelled, not verified.")

CLAIMED = {
    "C12": dict(
        text=("Proof by kernel evaluation over the whole table: the table and data/nist_mass.json are re-translated "
              "to Lean on every run and every clause of the property is a `decide +kernel` theorem over all 120 "
              "elements / all isotopes (the property's quantifier is this finite table); `data/build.rs` is modelled "
              "bit-exactly (round-to-nearest-even doubles, `{:.6}`) and `table = build(nist)` is a theorem; "
              "`index_isotopes` is proved correct for every element, not only tabulated ones."),
        design_ref="§7.12",
        note=NOTE_COMMON + " serde_json's decimal->f64 conversion is assumed correctly rounded.",
        technique="Lean 4 kernel evaluation (decide +kernel) over the regenerated table + parametric lemmas"),
}

PENDING_REASON = "check not built yet in this session; no claim is made until its model, theorems and correspondence run exist"


def main():
    props = [json.loads(l) for l in (ROOT / "properties.jsonl").read_text().splitlines() if l.strip()]
    checks = []
    na = []
    for p in props:
        pid = p["id"]
        c = CLAIMED.get(pid)
        if c is None:
            na.append(dict(property_id=pid, reason=PENDING_REASON))
            continue
        checks.append(dict(
            property_id=pid,
            quick_cmd=f"./check {pid} quick",
            thorough_cmd=f"./check {pid} thorough",
            evidence_file=f"/verif/evidence/{pid}.json",
            replay_cmd_template=f"./check {pid} --replay {{path}}",
            engine="lean4-proof+correspondence",
            level_claimed=dict(category="proof", text=c["text"], design_ref=c["design_ref"]),
            level_note=c["note"],
            technique=c["technique"],
        ))
    manifest = dict(
        version=1,
        setup_cmd="./setup.sh",
        hooks=dict(
            guard="chemical_elements_verif",
            enable="no hook is needed: every observable used by the checks is public API; the harness is a separate crate with a path dependency on /repo",
            baseline_off_cmd="cd /repo && cargo test --workspace --no-fail-fast --offline",
            source_commits=[],
            add_only=True,
        ),
        engines=[dict(
            name="lean4-proof+correspondence",
            path="/verif/lean (theorems, models, driver), /verif/harness (Rust interpreter of the same op lines), /verif/orchestrator",
            serves_properties=sorted(CLAIMED),
            kind_free_text="machine-checked proof in Lean 4 about executable models; models tied to /repo by a translator (data, constants) and a differential correspondence check (code)",
        )],
        checks=checks,
        not_applicable=na,
        notes="See DESIGN.md. Genuine defects repaired in /repo are listed under 'fixed' in known_findings.json.",
    )
    (ROOT / "MANIFEST.json").write_text(json.dumps(manifest, indent=1) + "\n")


if __name__ == "__main__":
    main()
