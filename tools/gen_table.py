#!/usr/bin/env python3
"""Translator: /repo's periodic table and NIST data -> Lean (ChemProofs/Gen/*.lean).

Front-end 1 (primary): the runtime dump printed by `harness dump-table` (what the compiled code
  actually holds, for both the global table and the one built by ChemicalElements::new()).
Front-end 2 (cross-check): a regex reading of src/table.rs.  When it applies, both must agree
  field for field; a disagreement is a translator bug (broken check), not a finding.
"""
import json
import re
import sys
from decimal import Decimal
from pathlib import Path


def dec_to_scaled(s: str, k: int):
    """exact decimal string -> integer in units of 10^-k, or None if not integral at that scale"""
    d = Decimal(s)
    v = d.scaleb(k)
    if v != v.to_integral_value():
        return None
    return int(v)


def decimals(s: str) -> int:
    d = Decimal(s)
    e = d.normalize().as_tuple().exponent
    return max(0, -e)


def cps(s: str) -> str:
    return "[" + ", ".join(str(ord(c)) for c in s) + "]"


def lint(i: int) -> str:
    return f"({i})" if i < 0 else str(i)


def load_dump(path):
    rows = [json.loads(l) for l in Path(path).read_text().splitlines() if l.strip()]
    tables = {"global": [], "helper": []}
    for r in rows:
        tables[r["table"]].append(r)
    return tables


def parse_table_rs(path):
    """front-end 2: regex over the literal structure of src/table.rs"""
    src = Path(path).read_text()
    blocks = re.split(r"let mut elt = Element \{", src)[1:]
    out = {}
    for b in blocks:
        m = re.search(r'symbol: String::from\("([^"]*)"\)', b)
        if not m:
            return None
        sym = m.group(1)
        head = b.split("};", 1)[0]
        mai = re.search(r"most_abundant_isotope: (\d+)", head)
        mam = re.search(r"most_abundant_mass: ([0-9.]+)", head)
        en = re.search(r"element_number: (\d+)", head)
        if not (mai and mam):
            return None
        isos = []
        for im in re.finditer(
            r"insert\(\s*(\d+),\s*Isotope \{\s*mass: ([0-9.]+),\s*abundance: ([0-9.]+),\s*neutrons: (\d+),\s*neutron_shift: (-?\d+),?\s*\}",
            b,
        ):
            isos.append(
                dict(key=int(im.group(1)), mass=im.group(2), abundance=im.group(3),
                     neutrons=int(im.group(4)), shift=int(im.group(5))))
        if "index_isotopes()" not in b or "table.add(elt)" not in b:
            return None
        out[sym] = dict(symbol=sym, most_abundant_isotope=int(mai.group(1)),
                        most_abundant_mass=mam.group(1),
                        element_number=int(en.group(1)) if en else 0, isotopes=isos)
    return out


def emit_table(name, rows, k):
    lines = [f"def {name} : Table := ["]
    elems = []
    for r in rows:
        isos = []
        for i in sorted(r["isotopes"], key=lambda i: i["key"]):
            isos.append(
                "{ key := %d, mass := %s, abund := %s, neutrons := %d, shift := %s }"
                % (i["key"], lint(dec_to_scaled(i["mass"], k)), lint(dec_to_scaled(i["abundance"], k)),
                   i["neutrons"], lint(i["shift"])))
        elems.append(
            "  { tkey := %s, sym := %s,\n    isos := [%s],\n    mostIso := %d, mostMass := %s, minShift := %s, maxShift := %s, elemNum := %d }"
            % (cps(r["key"]), cps(r["symbol"]), ",\n             ".join(isos),
               r["most_abundant_isotope"], lint(dec_to_scaled(r["most_abundant_mass"], k)),
               lint(r["min"]), lint(r["max"]), r["element_number"]))
    lines.append(",\n".join(elems))
    lines.append("]")
    return "\n".join(lines)


def write_if_changed(path: Path, text: str) -> bool:
    if path.exists() and path.read_text() == text:
        return False
    path.parent.mkdir(parents=True, exist_ok=True)
    path.write_text(text)
    return True


def main():
    dump_path, repo, gen_dir = sys.argv[1], Path(sys.argv[2]), Path(sys.argv[3])
    tables = load_dump(dump_path)
    report = {"translator_frontends": ["runtime-dump"], "problems": []}

    # global scale: enough decimals for every value, at least 6
    k = 6
    for t in tables.values():
        for r in t:
            k = max(k, decimals(r["most_abundant_mass"]))
            for i in r["isotopes"]:
                k = max(k, decimals(i["mass"]), decimals(i["abundance"]))
    report["scale_decimals"] = k

    # front-end 2 cross-check
    fe2 = None
    try:
        fe2 = parse_table_rs(repo / "src" / "table.rs")
    except Exception as e:  # pragma: no cover
        fe2 = None
    if fe2 is not None and len(fe2) == len(tables["global"]):
        report["translator_frontends"].append("table.rs-regex")
        for r in tables["global"]:
            s = fe2.get(r["symbol"])
            if s is None:
                report["problems"].append(f"frontends disagree: {r['symbol']} missing from regex parse")
                continue
            def same_num(a, b):
                return Decimal(a) == Decimal(b)
            ok = (s["most_abundant_isotope"] == r["most_abundant_isotope"]
                  and same_num(s["most_abundant_mass"], r["most_abundant_mass"])
                  and s["element_number"] == r["element_number"]
                  and len(s["isotopes"]) == len(r["isotopes"]))
            if ok:
                rk = {i["key"]: i for i in r["isotopes"]}
                for i in s["isotopes"]:
                    j = rk.get(i["key"])
                    if (j is None or not same_num(i["mass"], j["mass"])
                            or not same_num(i["abundance"], j["abundance"])
                            or i["neutrons"] != j["neutrons"] or i["shift"] != j["shift"]):
                        ok = False
            if not ok:
                report["problems"].append(f"frontends disagree on {r['symbol']}")
    else:
        report["regex_frontend"] = "not applicable to the current source layout"

    body = [
        "import ChemProofs.Model.Table",
        "/- GENERATED by tools/gen_table.py from `harness dump-table` (the compiled /repo). Do not edit. -/",
        "namespace Chem.Gen",
        "open Chem",
        f"def scaleDecimals : Nat := {k}",
        f"def one : Int := {10**k}",
        emit_table("table", tables["global"], k),
        emit_table("tableHelper", tables["helper"], k),
        "end Chem.Gen",
        "",
    ]
    ch1 = write_if_changed(gen_dir / "Table.lean", "\n".join(body))

    # NIST data
    nist = json.loads((repo / "data" / "nist_mass.json").read_text(),
                      parse_float=Decimal, parse_int=Decimal)
    elems = []
    for sym, isos in nist.items():
        rows = []
        for key, (mass, abund) in isos.items():
            def dec(d):
                d = Decimal(d)
                t = d.as_tuple()
                man = int("".join(map(str, t.digits)))
                e = t.exponent
                if e > 0:
                    man *= 10 ** e
                    e = 0
                return "⟨%d, %d⟩" % (man, -e)
            rows.append("{ key := %s, mass := %s, abund := %s }" % (cps(key), dec(mass), dec(abund)))
        elems.append("def nistElem%d : NistElem :=\n  { sym := %s, isos := [\n    %s] }" % (len(elems), cps(sym), ",\n    ".join(rows)))
    nbody = [
        "import ChemProofs.Model.BuildRs",
        "/- GENERATED by tools/gen_table.py from /repo/data/nist_mass.json. Do not edit. -/",
        "namespace Chem.Gen",
        "open Chem",
        "set_option maxRecDepth 100000",
        "\n".join(elems),
        "def nist : List NistElem := [" + ", ".join("nistElem%d" % i for i in range(len(elems))) + "]",
        "end Chem.Gen",
        "",
    ]
    ch2 = write_if_changed(gen_dir / "Nist.lean", "\n".join(nbody))
    report["changed"] = {"Table.lean": ch1, "Nist.lean": ch2}
    report["elements"] = len(tables["global"])
    report["isotopes"] = sum(len(r["isotopes"]) for r in tables["global"])
    print(json.dumps(report))


if __name__ == "__main__":
    main()
