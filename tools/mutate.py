#!/usr/bin/env python3
"""Mutation sweep over the anchored source files (a self-test of the checks, not a check itself).

  mutate.py gen  <repo> <out.json> [N] [seed]     sample N first-order mutants
  mutate.py run  <repo> <verif> <mutants.json> <results.jsonl>
        for each mutant: apply to <repo>, run the pinned suite; if it passes, run the quick checks that
        anchor the file (VERIF_REPO=<repo>); record which exit non-zero; restore the file.
A mutant that passes the suite AND every relevant check is a *survivor* to be triaged by hand
(equivalent mutant / behaviour no property speaks about / a hole in a check)."""
import json, os, random, re, subprocess, sys, time
from pathlib import Path

FILES = {
    "src/formula.rs": ["C01", "C05", "C07", "C17"],
    "src/composition_list.rs": ["C02", "C04", "C06", "C07", "C16", "C01"],
    "src/composition_map.rs": ["C02", "C04", "C06", "C07", "C16", "C01"],
    "src/abstract_composition.rs": ["C02", "C04", "C06", "C07", "C16", "C17", "C01"],
    "src/props.rs": ["C02", "C04", "C06"],
    "src/element_specification.rs": ["C16", "C06", "C07", "C17", "C01"],
    "src/element.rs": ["C12", "C03", "C05", "C16"],
    "src/helper.rs": ["C12", "C01"],
    "src/mz.rs": ["C10", "C15", "C03"],
    "src/isotopic_pattern/baffling.rs": ["C03", "C08", "C09", "C10"],
    "src/isotopic_pattern/convolution.rs": ["C11", "C10"],
    "src/isotopic_pattern/peak.rs": ["C13", "C14", "C11"],
    "src/isotopic_pattern/poisson.rs": ["C15", "C10", "C09"],
    "bindings/c/src/lib.rs": ["C17"],
}
OPS = [
    (r"<=", "<"), (r">=", ">"), (r"(?<![<>=!\-])<(?![<=])", "<="), (r"(?<![<>=!\-])>(?![>=])", ">="),
    (r"==", "!="), (r"!=", "=="), (r"&&", "||"), (r"\|\|", "&&"),
    (r"(?<![+\w])\+(?![+=])", "-"), (r"(?<![-\w>(,=] )(?<![-eE(\[,=<>*/+&|!])-(?![->=])", "+"),
    (r"\+=", "-="), (r"-=", "+="), (r"\*=", "/="),
    (r"\+ 1\b", "+ 0"), (r"- 1\b", "- 0"), (r"\b0\b", "1"), (r"\b1\b", "0"), (r"\b1\b", "2"),
    (r"\btrue\b", "false"), (r"\bfalse\b", "true"), (r"!(?=[a-zA-Z(])", ""),
    (r"self\.mass_cache = None;", ""), (r"\.unwrap_or\(0\)", ".unwrap_or(1)"),
    (r"\bmin\b", "max"), (r"\bmax\b", "min"), (r"\.abs\(\)", ""), (r"\bbreak;", "continue;"), (r"\bcontinue;", "break;"),
]


def code_lines(text):
    """indices of lines that are code outside #[cfg(test)] modules, attributes, comments, use lines"""
    out = []
    lines = text.split("\n")
    in_test = False
    for i, l in enumerate(lines):
        s = l.strip()
        if s.startswith("#[cfg(test)]"):
            in_test = True
        if in_test:
            continue
        if not s or s.startswith("//") or s.startswith("#[") or s.startswith("use ") or s.startswith("///") or s.startswith("*") or s.startswith("/*"):
            continue
        if "doc =" in s or s.startswith("pub mod") or s.startswith("mod "):
            continue
        out.append(i)
    return out


def gen(repo, out, n, seed):
    rng = random.Random(seed)
    allm = []
    for f in FILES:
        p = Path(repo) / f
        text = p.read_text()
        lines = text.split("\n")
        for i in code_lines(text):
            l = lines[i]
            code = l.split("//")[0]
            # second operator set: statement deletion, range ends, iteration order, saturating/wrapping arithmetic
            st = code.strip()
            if re.match(r"^(self\.)?[A-Za-z_][\w\.\[\]\*&]*\s*(=|\+=|-=|\*=|/=)\s*[^=].*;$", st) and not st.startswith(("let ", "return")):
                allm.append(dict(file=f, line=i + 1, before=l, after=l.replace(st, "/* deleted */"), op="delete-assignment"))
            if re.match(r"^[a-z_][\w\.]*\.(push|clear|sort_by|sort|extend|insert|remove|retain|reserve|truncate|swap|set|inc|receive|receive_from|update|add)\(.*\);$", st):
                allm.append(dict(file=f, line=i + 1, before=l, after=l.replace(st, "/* deleted */"), op="delete-call"))
            for pat2, rep2 in ((r"\.\.=", ".."), (r"(?<!\.)\.\.(?![.=])(?=\s*[\w(])", "..="), (r"\.iter\(\)", ".iter().rev()"),
                               (r"saturating_sub", "wrapping_sub"), (r"saturating_add", "wrapping_add"), (r"\.min\(", ".max("), (r"\.max\(", ".min("),
                               (r"as f64", "as f32 as f64"), (r"\.take\(", ".skip(")):
                for m2 in re.finditer(pat2, code):
                    new2 = code[: m2.start()] + rep2 + code[m2.end():] + l[len(code):]
                    allm.append(dict(file=f, line=i + 1, before=l, after=new2, op=f"{pat2} -> {rep2}"))
            for pat, rep in OPS:
                for m in re.finditer(pat, code):
                    # skip generics / lifetimes / arrows / references that look like operators
                    ctx = code[max(0, m.start() - 2): m.end() + 2]
                    if pat.startswith("(?<![<>=") and re.search(r"(->|=>|<'|::<|Vec<|Option<|Box<|impl<|for<|<[A-Z&']|[A-Za-z0-9_'\]]>)", code[max(0, m.start()-12): m.end()+12]):
                        continue
                    new = code[: m.start()] + rep + code[m.end():] + l[len(code):]
                    if new == l:
                        continue
                    allm.append(dict(file=f, line=i + 1, before=l, after=new, op=f"{pat} -> {rep}"))
    # stratified sample: equal share per file (at most what it has)
    byf = {}
    for m in allm:
        byf.setdefault(m["file"], []).append(m)
    weights = {"src/isotopic_pattern/baffling.rs": 3, "src/formula.rs": 3, "src/isotopic_pattern/peak.rs": 2,
               "src/composition_list.rs": 2, "src/composition_map.rs": 2, "src/abstract_composition.rs": 2}
    tot = sum(weights.get(f, 1) for f in byf)
    pick = []
    for f, ms in byf.items():
        k = min(len(ms), max(3, n * weights.get(f, 1) // tot))
        pick += rng.sample(ms, k)
    rng.shuffle(pick)
    for k, m in enumerate(pick):
        m["id"] = k
    Path(out).write_text(json.dumps(pick, indent=1))
    print(f"{len(allm)} candidate mutants, {len(pick)} sampled")


def sh(cmd, cwd, env=None, timeout=1800):
    e = dict(os.environ); e["CARGO_NET_OFFLINE"] = "true"
    if env: e.update(env)
    try:
        p = subprocess.run(cmd, cwd=cwd, env=e, stdout=subprocess.PIPE, stderr=subprocess.STDOUT, timeout=timeout, shell=isinstance(cmd, str))
        return p.returncode, p.stdout.decode("utf-8", "replace")
    except subprocess.TimeoutExpired:
        return 124, "timeout"


def run(repo, verif, mfile, rfile):
    muts = json.loads(Path(mfile).read_text())
    done = set()
    if Path(rfile).exists():
        done = {json.loads(l)["id"] for l in Path(rfile).read_text().splitlines() if l.strip()}
    env = {"VERIF_REPO": repo, "VERIF_NO_ESCALATE": "1"}
    if os.environ.get("MUT_REVERSE"):
        muts = list(reversed(muts))
    for m in muts:
        if Path(rfile).exists():
            done = {(x["file"], x["before"], x["after"]) for x in map(json.loads, (l for l in Path(rfile).read_text().splitlines() if l.strip()))}
        if (m["file"], m["before"].strip(), m["after"].strip()) in done:
            continue
        p = Path(repo) / m["file"]
        orig = p.read_text()
        lines = orig.split("\n")
        if lines[m["line"] - 1] != m["before"]:
            continue
        lines[m["line"] - 1] = m["after"]
        p.write_text("\n".join(lines))
        rec = dict(id=m["id"], file=m["file"], line=m["line"], op=m["op"], before=m["before"].strip(), after=m["after"].strip())
        t0 = time.time()
        try:
            rc, out = sh(["cargo", "test", "--workspace", "--no-fail-fast", "--offline", "-q"], repo, timeout=900)
            if "error" in out and "could not compile" in out:
                rec["status"] = "no-compile"
            elif rc != 0:
                rec["status"] = "killed-by-suite"
            else:
                caught = []
                for c in FILES[m["file"]]:
                    rc2, out2 = sh([str(Path(verif) / "check"), c, "quick"], verif, env=env, timeout=1500)
                    if rc2 != 0:
                        caught.append(c if rc2 == 1 else f"{c}(rc={rc2})")
                        break          # one catching check is enough
                rec["status"] = "caught" if caught else "SURVIVED"
                rec["caught_by"] = caught
        finally:
            p.write_text(orig)
        rec["secs"] = round(time.time() - t0, 1)
        with open(rfile, "a") as f:
            f.write(json.dumps(rec) + "\n")
        print(rec["id"], rec["status"], rec.get("caught_by", ""), rec["file"], rec["line"], rec["op"], flush=True)


if __name__ == "__main__":
    if sys.argv[1] == "gen":
        gen(sys.argv[2], sys.argv[3], int(sys.argv[4]) if len(sys.argv) > 4 else 300, int(sys.argv[5]) if len(sys.argv) > 5 else 1)
    else:
        run(*sys.argv[2:6])
