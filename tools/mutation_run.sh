#!/bin/sh
# background mutation sweep:  vp run --with-repo --timeout 9h -- tools/mutation_run.sh [N] [seed] [results-file]
# works on the snapshot of /repo ($VP_RUN_REPO) and this snapshot of /verif; never touches /repo itself
set -e
REPO=${VP_RUN_REPO:?needs --with-repo}
N=${1:-400}; SEED=${2:-7}; RES=${3:-/verif/work/mutation_results.jsonl}
sed -i "s#\"/repo#\"$REPO#g" harness/Cargo.toml
export VERIF_REPO=$REPO CARGO_NET_OFFLINE=true MUT_REVERSE=${4:-} VERIF_NO_CHANGECOV=1
./setup.sh > work_setup.log 2>&1 || { tail -20 work_setup.log; exit 1; }
(cd $REPO && cargo test --workspace --no-fail-fast --offline -q > /dev/null 2>&1 || echo "baseline suite fails?")
python3 tools/mutate.py gen $REPO work/mutants.json $N $SEED
python3 tools/mutate.py run $REPO $PWD work/mutants.json $RES
