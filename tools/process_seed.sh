#!/bin/sh
# usage: tools/process_seed.sh <agent seed_out dir> <seed id> <property> <checks...>
# confirm in a scratch worktree, run the named quick checks with the patch applied to /repo (restored
# afterwards), save under /verif/seeded/<seed id> with the list of checks that caught it.
SD=$1; SID=$2; PROP=$3; shift 3
CONF=$(/verif/tools/confirm_seed.sh "$SD" | tail -1)
echo "confirm: $CONF"
case "$CONF" in *'"suite_passes_with_patch": true, "demo_with_patch": "fail", "demo_without_patch": "pass"'*) ;; *) echo "NOT CONFIRMED"; exit 1;; esac
OUT=$(/verif/tools/try_patch.sh "$SD/patch.diff" -- "$@")
echo "$OUT"
CAUGHT=$(echo "$OUT" | awk '/^== /{p=$2; rc=$3} /^== .* rc=1/{printf "%s,", $2}')
python3 /verif/tools/save_seed.py "$SD" "$SID" "$PROP" "$CONF" "$CAUGHT" "${NOTE:-}"
echo "caught_by: $CAUGHT"
