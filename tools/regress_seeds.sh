#!/bin/sh
# every seeded change again: apply to the snapshot of /repo, run the quick check(s) recorded in meta.json (caught_by), expect
# exit 1.   vp run --with-repo --timeout 4h -- tools/regress_seeds.sh      (results: one line per seed)
cd "$(dirname "$0")/.."
REPO=${VP_RUN_REPO:?needs --with-repo}
sed -i "s#\"/repo#\"$REPO#g" harness/Cargo.toml; export VERIF_REPO=$REPO VERIF_NO_ESCALATE=1 CARGO_NET_OFFLINE=true
./setup.sh >/dev/null 2>&1
for d in seeded/*/; do
  id=$(basename $d)
  git -C $REPO apply "$PWD/$d/patch.diff" 2>/dev/null || { echo "$id DOES-NOT-APPLY"; continue; }
  res=""
  for c in $(python3 -c "import json;print(' '.join(json.load(open('$d/meta.json'))['caught_by']))"); do
    ./check $c quick >/dev/null 2>&1; res="$res $c=$?"
  done
  git -C $REPO checkout -- . 
  case "$res" in *"=1"*) echo "$id caught:$res";; *) echo "$id MISSED:$res";; esac
done
