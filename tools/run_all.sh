#!/bin/sh
# usage: tools/run_all.sh [tier]   (VERIF_SEED honoured) — every claimed check once, summary lines only
TIER=${1:-quick}
cd /verif
for p in C01 C02 C03 C04 C05 C06 C07 C08 C09 C10 C11 C12 C13 C14 C15 C16 C17; do
  out=$(timeout 3000 ./check $p $TIER 2>&1); rc=$?
  echo "$p rc=$rc $(echo "$out" | grep -E "obligations|BROKEN|Traceback" | tail -1) $(echo "$out" | grep -c '^VIOLATION') violations"
done
