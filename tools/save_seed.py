#!/usr/bin/env python3
"""save_seed.py <agent seed dir> <seed id> <property> <confirm json> <caught_by (comma list)> [note]"""
import json, shutil, sys
from pathlib import Path
src, sid, prop, confirm, caught = Path(sys.argv[1]), sys.argv[2], sys.argv[3], json.loads(sys.argv[4]), sys.argv[5]
note = sys.argv[6] if len(sys.argv) > 6 else ""
dst = Path("/verif/seeded") / sid
dst.mkdir(parents=True, exist_ok=True)
shutil.copy(src / "patch.diff", dst / "patch.diff")
shutil.copy(src / "seed_demo.rs", dst / "seed_demo.rs")
agent = json.loads((src / "meta.json").read_text())
meta = dict(id=sid, property=prop, summary=agent.get("summary"), needs_to_manifest=agent.get("needs_to_manifest"),
            files_touched=agent.get("files_touched"), origin="independent sub-agent given only the property text and a scratch worktree",
            confirmed=dict(confirm, how="tools/confirm_seed.sh in a scratch worktree of /repo HEAD: existing suite with patch, demo with patch, demo without patch"),
            caught_by=[c for c in caught.split(",") if c], note=note)
(dst / "meta.json").write_text(json.dumps(meta, indent=1) + "\n")
print("saved", dst)
