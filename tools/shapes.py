#!/usr/bin/env python3
"""State-shape obligations: the models carry exactly the state the code's structs declare.

  shapes.py lock [repo]      rewrite /verif/state_shapes.json from the current tree (after validating the models)
  extract(repo)              {struct name: ["field: type", ...]} for the structs named in STRUCTS

The correspondence ties the model's STATE to the code's state through the observations it compares.  A struct that gains a
field (a second-level memo, a remembered last request, a flag) carries state the model does not have: whatever the
differential runs show, the tie is broken — the check reports the obligation, with a failing input when the streams find one
and `no-failing-input-found` otherwise."""
import json, re, sys
from pathlib import Path

ROOT = Path(__file__).resolve().parent.parent
LOCK = ROOT / "state_shapes.json"
STRUCTS = {
    "src/composition_list.rs": ["ChemicalCompositionVec"],
    "src/composition_map.rs": ["ChemicalCompositionMap"],
    "src/abstract_composition.rs": ["ChemicalComposition", "ChemicalCompositionRef"],
    "src/element_specification.rs": ["ElementSpecification"],
    "src/formula.rs": ["FormulaParser"],
    "src/isotopic_pattern/baffling.rs": ["BafflingRecursiveIsotopicPatternGenerator", "IsotopicConstantsCache", "IsotopicConstants",
                                         "PhiConstants", "PolynomialParameters", "IsotopicDistribution"],
    "src/isotopic_pattern/peak.rs": ["Peak", "TheoreticalIsotopicPattern", "IncrementalTruncationIter"],
    "src/element.rs": ["Element", "Isotope", "PeriodicTable"],
    "bindings/c/src/lib.rs": ["CChemicalComposition"],
}


def strip(text):
    text = re.sub(r"/\*.*?\*/", "", text, flags=re.S)
    return re.sub(r"//.*", "", text)


def extract(repo):
    out = {}
    for f, names in STRUCTS.items():
        try:
            text = strip((Path(repo) / f).read_text())
        except OSError:
            continue
        for n in names:
            m = re.search(r"\b(struct|enum)\s+" + n + r"\b[^;{(]*([{(])", text)
            if not m:
                out[n] = None
                continue
            open_c, close_c = (m.group(2), "}" if m.group(2) == "{" else ")")
            i = m.end()
            depth = 1
            j = i
            while j < len(text) and depth:
                if text[j] == open_c:
                    depth += 1
                elif text[j] == close_c:
                    depth -= 1
                j += 1
            body = text[i:j - 1]
            body = re.sub(r"#\[[^\]]*\]", "", body)
            # split on top-level commas
            parts, cur, d = [], "", 0
            for ch in body:
                if ch in "<([{":
                    d += 1
                elif ch in ">)]}":
                    d -= 1
                if ch == "," and d == 0:
                    parts.append(cur)
                    cur = ""
                else:
                    cur += ch
            parts.append(cur)
            fields = []
            for p in parts:
                p = re.sub(r"\s+", " ", p).strip()
                p = re.sub(r"^pub(\([a-z]+\))? ", "", p)
                if p:
                    fields.append(p)
            out[n] = sorted(fields)
    return out


def lock(repo):
    LOCK.write_text(json.dumps(extract(repo), indent=1) + "\n")
    print("locked", len(extract(repo)), "types")


def differences(names, repo):
    if not LOCK.exists():
        return []
    want = json.loads(LOCK.read_text())
    got = extract(repo)
    out = []
    for n in names:
        if want.get(n) != got.get(n):
            w, g = set(want.get(n) or []), set(got.get(n) or [])
            out.append(f"{n}: " + "; ".join(([f"new: {sorted(g - w)}"] if g - w else []) + ([f"gone: {sorted(w - g)}"] if w - g else [])
                                             + (["not found"] if got.get(n) is None else [])))
    return out


if __name__ == "__main__":
    if sys.argv[1] == "lock":
        lock(sys.argv[2] if len(sys.argv) > 2 else "/repo")
    else:
        print(json.dumps(extract(sys.argv[2] if len(sys.argv) > 2 else "/repo"), indent=1))
