#!/usr/bin/env python3
"""State-shape obligations: the models carry exactly the state the code's structs declare.

  shapes.py lock [repo]      rewrite /verif/state_shapes.json from the current tree (after validating the models)
  extract(repo)              {struct name: ["field: type", ...]} for the structs named in STRUCTS

The correspondence ties the model's STATE to the code's state through the observations it compares.  A struct that gains a
field (a second-level memo, a remembered last request, a flag) carries state the model does not have: whatever the
differential runs show, the tie is broken — the check reports the obligation, with a failing input when the streams find one
and `no-failing-input-found` otherwise."""
import json, re, sys
from pathlib import Path

ROOT = Path(__file__).resolve().parent.parent
LOCK = ROOT / "state_shapes.json"
STRUCTS = {
    "src/composition_list.rs": ["ChemicalCompositionVec"],
    "src/composition_map.rs": ["ChemicalCompositionMap"],
    "src/abstract_composition.rs": ["ChemicalComposition", "ChemicalCompositionRef"],
    "src/element_specification.rs": ["ElementSpecification"],
    "src/formula.rs": ["FormulaParser"],
    "src/isotopic_pattern/baffling.rs": ["BafflingRecursiveIsotopicPatternGenerator", "IsotopicConstantsCache", "IsotopicConstants",
                                         "PhiConstants", "PolynomialParameters", "IsotopicDistribution"],
    "src/isotopic_pattern/peak.rs": ["Peak", "TheoreticalIsotopicPattern", "IncrementalTruncationIter"],
    "src/element.rs": ["Element", "Isotope", "PeriodicTable"],
    "bindings/c/src/lib.rs": ["CChemicalComposition"],
}


def strip(text):
    text = re.sub(r"/\*.*?\*/", "", text, flags=re.S)
    return re.sub(r"//.*", "", text)


def extract(repo):
    out = {}
    for f, names in STRUCTS.items():
        try:
            text = strip((Path(repo) / f).read_text())
        except OSError:
            continue
        for n in names:
            m = re.search(r"\b(struct|enum)\s+" + n + r"\b[^;{(]*([{(])", text)
            if not m:
                out[n] = None
                continue
            open_c, close_c = (m.group(2), "}" if m.group(2) == "{" else ")")
            i = m.end()
            depth = 1
            j = i
            while j < len(text) and depth:
                if text[j] == open_c:
                    depth += 1
                elif text[j] == close_c:
                    depth -= 1
                j += 1
            body = text[i:j - 1]
            body = re.sub(r"#\[[^\]]*\]", "", body)
            # split on top-level commas
            parts, cur, d = [], "", 0
            for ch in body:
                if ch in "<([{":
                    d += 1
                elif ch in ">)]}":
                    d -= 1
                if ch == "," and d == 0:
                    parts.append(cur)
                    cur = ""
                else:
                    cur += ch
            parts.append(cur)
            fields = []
            for p in parts:
                p = re.sub(r"\s+", " ", p).strip()
                p = re.sub(r"^pub(\([a-z]+\))? ", "", p)
                if p:
                    fields.append(p)
            out[n] = sorted(fields)
    return out


GLOBAL_STATE = re.compile(r"thread_local!|\bstatic\s+(?:mut\s+)?[A-Z_][A-Z0-9_]*\s*:|\bLazyLock\b|\bOnceLock\b|\bOnceCell\b|\blazy_static!")
SRC_DIRS = ["src", "bindings/c/src"]


def global_state(repo):
    """{file: [declarations of process- or thread-wide state]}: the models are functions of their arguments (and, for the
    generator, of its own cache); any other state that survives a call is state the models do not have"""
    out = {}
    for d in SRC_DIRS:
        for f in sorted((Path(repo) / d).rglob("*.rs")):
            text = strip(f.read_text(errors="replace"))
            cut = text.find("#[cfg(test)]")
            if cut >= 0:
                text = text[:cut]
            hits = sorted(re.sub(r"\s+", " ", m.group(0)) for m in GLOBAL_STATE.finditer(text))
            if hits:
                out[str(f.relative_to(repo))] = hits
    return out


def lock(repo):
    d = extract(repo)
    d["__global_state__"] = global_state(repo)
    LOCK.write_text(json.dumps(d, indent=1) + "\n")
    print("locked", len(d) - 1, "types;", "global state:", d["__global_state__"])


def differences(names, repo):
    if not LOCK.exists():
        return []
    want = json.loads(LOCK.read_text())
    got = extract(repo)
    out = []
    gs_want, gs_got = want.get("__global_state__"), global_state(repo)
    if gs_want is not None and gs_want != gs_got:
        for f in sorted(set(gs_want) | set(gs_got)):
            if gs_want.get(f) != gs_got.get(f):
                out.append(f"process-/thread-wide state in {f}: {gs_got.get(f, [])} (was {gs_want.get(f, [])})")
    for n in names:
        if want.get(n) != got.get(n):
            w, g = set(want.get(n) or []), set(got.get(n) or [])
            out.append(f"{n}: " + "; ".join(([f"new: {sorted(g - w)}"] if g - w else []) + ([f"gone: {sorted(w - g)}"] if w - g else [])
                                             + (["not found"] if got.get(n) is None else [])))
    return out


if __name__ == "__main__":
    if sys.argv[1] == "lock":
        lock(sys.argv[2] if len(sys.argv) > 2 else "/repo")
    else:
        print(json.dumps(extract(sys.argv[2] if len(sys.argv) > 2 else "/repo"), indent=1))
