#!/bin/sh
# the quick checks under other seeds, from a snapshot (vp run --with-repo -- tools/soak_seeds.sh 1 2 3): a check that alarms on
# the unchanged tree under some seed is broken
cd "$(dirname "$0")/.."
if [ -n "${VP_RUN_REPO:-}" ]; then sed -i "s#\"/repo#\"$VP_RUN_REPO#g" harness/Cargo.toml; export VERIF_REPO=$VP_RUN_REPO; fi
./setup.sh >/dev/null 2>&1
for seed in ${*:-1 2 3}; do
  for p in C01 C02 C03 C04 C05 C06 C07 C08 C09 C10 C11 C12 C13 C14 C15 C16 C17; do
    out=$(VERIF_SEED=$seed ./check $p quick 2>&1); rc=$?
    echo "seed=$seed $p rc=$rc $(echo "$out" | grep -E "obligations|BROKEN|Traceback" | tail -1) $(echo "$out" | grep -c '^VIOLATION') violations"
    if [ $rc -ne 0 ]; then echo "$out" | grep -E "VIOLATION|BROKEN" | head -5; fi
  done
done
exit 0
