#!/bin/sh
# every thorough check once, from a snapshot (vp run -- tools/thorough_all.sh): timing + exit status per property
cd "$(dirname "$0")/.."
# with `vp run --with-repo` the checks run against the snapshot of /repo, so /repo itself stays free for seeded patches
if [ -n "${VP_RUN_REPO:-}" ]; then sed -i "s#\"/repo#\"$VP_RUN_REPO#g" harness/Cargo.toml; export VERIF_REPO=$VP_RUN_REPO; fi
./setup.sh >/dev/null 2>&1
for p in ${*:-C01 C02 C03 C04 C05 C06 C07 C08 C09 C10 C11 C12 C13 C14 C15 C16 C17}; do
  s=$(date +%s); out=$(./check $p thorough 2>&1); rc=$?; e=$(date +%s)
  echo "$p rc=$rc $((e-s))s $(echo "$out" | grep -E "obligations|BROKEN|Traceback" | tail -1) $(echo "$out" | grep -c '^VIOLATION') violations"
done
