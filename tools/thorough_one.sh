#!/bin/sh
# run one thorough check from a snapshot: needs the snapshot's own build products
cd "$(dirname "$0")/.." && ./setup.sh >/dev/null 2>&1; ./check "$1" thorough
