#!/bin/sh
# usage: tools/try_patch.sh <patch-file> [-R] -- C02 C04 ...   : apply to /repo, run the quick checks, restore
set -u
PATCH=$1; shift
REV=""
if [ "$1" = "-R" ]; then REV="-R"; shift; fi
[ "$1" = "--" ] && shift
if [ -n "$(git -C /repo status --porcelain --untracked-files=no)" ]; then echo "/repo is not clean"; exit 3; fi
EVBAK=$(mktemp -d)
cp -r /verif/evidence/. "$EVBAK"/ 2>/dev/null
restore() { git -C /repo checkout -- . ; cp -r "$EVBAK"/. /verif/evidence/ 2>/dev/null; rm -rf "$EVBAK";
  # the harness binaries were linked against the patched tree: relink them against the restored one
  (cd /verif/harness && CARGO_NET_OFFLINE=true cargo build --offline --quiet >/dev/null 2>&1)
  # ... and the generated Lean files were translated from it: translate the restored tree again
  (cd /verif && ./harness/target/debug/harness dump-table > work/dump.jsonl && python3 tools/gen_table.py work/dump.jsonl /repo lean/ChemProofs/Gen >/dev/null && python3 tools/gen_consts.py /repo lean/ChemProofs/Gen >/dev/null); }
trap restore EXIT INT TERM
git -C /repo apply $REV "$PATCH" || { echo "patch does not apply"; exit 3; }
for p in "$@"; do
  out=$(timeout 900 /verif/check $p quick 2>&1); rc=$?
  echo "== $p rc=$rc"; echo "$out" | grep -E "VIOLATION|KNOWN|BROKEN|obligations" | head -6
done
