#!/bin/sh
# usage: tools/try_patch.sh <patch-file> [-R] -- C02 C04 ...   : apply to /repo, run the quick checks, restore
set -u
PATCH=$1; shift
REV=""
if [ "$1" = "-R" ]; then REV="-R"; shift; fi
[ "$1" = "--" ] && shift
git -C /repo apply $REV "$PATCH" || { echo "patch does not apply"; exit 3; }
for p in "$@"; do
  out=$(/verif/check $p quick 2>&1); rc=$?
  echo "== $p rc=$rc"; echo "$out" | grep -E "VIOLATION|KNOWN|BROKEN|obligations" | head -6
done
git -C /repo checkout -- . && git -C /repo status --short | head -3
